package gosym

import (
	"fmt"
	"go/types"
	"strings"

	"golang.org/x/tools/go/ssa"

	"verif/engine/smt"
)

var vfIntrinsics map[string]handler

func vfNum(typ string, k numKind) handler {
	return func(m *Machine, fr *frame, fn *ssa.Function, a []Value) Value {
		return m.newInput(m.concStr(a[0]), typ, k)
	}
}

func init() {
	vfIntrinsics = map[string]handler{
		"vfInt":     vfNum("int", numKind{64, true, false}),
		"vfInt8":    vfNum("int8", numKind{8, true, false}),
		"vfInt16":   vfNum("int16", numKind{16, true, false}),
		"vfInt32":   vfNum("int32", numKind{32, true, false}),
		"vfInt64":   vfNum("int64", numKind{64, true, false}),
		"vfUint":    vfNum("uint", numKind{64, false, false}),
		"vfUint8":   vfNum("uint8", numKind{8, false, false}),
		"vfUint16":  vfNum("uint16", numKind{16, false, false}),
		"vfUint32":  vfNum("uint32", numKind{32, false, false}),
		"vfUint64":  vfNum("uint64", numKind{64, false, false}),
		"vfUintptr": vfNum("uintptr", numKind{64, false, false}),
		"vfFloat32": vfNum("float32", numKind{32, true, true}),
		"vfFloat64": vfNum("float64", numKind{64, true, true}),
		"vfBool": func(m *Machine, fr *frame, fn *ssa.Function, a []Value) Value {
			return m.newBoolInput(m.concStr(a[0]))
		},
		"vfAssume": func(m *Machine, fr *frame, fn *ssa.Function, a []Value) Value {
			m.assume(a[0].(T))
			return nil
		},
		"vfAssert": func(m *Machine, fr *frame, fn *ssa.Function, a []Value) Value {
			m.assert(m.concStr(a[0]), a[1].(T), fr.curPos)
			return nil
		},
		"vfReach": func(m *Machine, fr *frame, fn *ssa.Function, a []Value) Value {
			m.Res.Reached[m.concStr(a[0])]++
			return nil
		},
		"vfChoose": func(m *Machine, fr *frame, fn *ssa.Function, a []Value) Value {
			n := int(m.concretize(a[1].(T), true))
			k := m.choose("choose", n, nil)
			m.choices = append(m.choices, k)
			return m.C.BVC(uint64(k), 64)
		},
		"vfRange": func(m *Machine, fr *frame, fn *ssa.Function, a []Value) Value {
			lo := int(m.concretize(a[1].(T), true))
			hi := int(m.concretize(a[2].(T), true))
			if hi < lo {
				m.end(StAssumeFalse, "empty vfRange")
			}
			k := m.choose("choose", hi-lo+1, nil)
			m.choices = append(m.choices, lo+k)
			return m.C.BVC(uint64(int64(lo+k)), 64)
		},
		// vfProbe(name, funcs, lo, hi): a size from lo..hi or just beyond one of the integer constants the named repository
		// functions (and what they call) compare things with - see thresholds.go. Recorded like a vfRange choice.
		"vfProbe": func(m *Machine, fr *frame, fn *ssa.Function, a []Value) Value {
			lo := int(m.concretize(a[2].(T), true))
			hi := int(m.concretize(a[3].(T), true))
			if hi < lo {
				m.end(StAssumeFalse, "empty vfProbe")
			}
			var sizes []int
			for v := lo; v <= hi; v++ {
				sizes = append(sizes, v)
			}
			for _, c := range m.P.codeThresholds(m.concStr(a[1])) {
				for _, v := range []int{int(c) + 1, int(c) + 2} {
					if v > hi {
						sizes = append(sizes, v)
					}
				}
			}
			k := m.choose("choose", len(sizes), nil)
			m.choices = append(m.choices, sizes[k])
			if sizes[k] > hi {
				m.Res.Probed = append(m.Res.Probed, sizes[k])
			}
			return m.C.BVC(uint64(int64(sizes[k])), 64)
		},
		// vfProbeDuration(name, funcs, base): base, or 20% beyond one of the time.Duration constants (1 ms .. 10 s) that the
		// named repository functions (and what they call) mention - a hidden timeout in the CURRENT source is exceeded
		"vfProbeDuration": func(m *Machine, fr *frame, fn *ssa.Function, a []Value) Value {
			base := m.concretize(a[2].(T), true)
			ds := []int64{base}
			for _, c := range m.P.codeDurations(m.concStr(a[1])) {
				if v := c + c/5; v > base {
					ds = append(ds, v)
				}
			}
			k := m.choose("choose", len(ds), nil)
			m.choices = append(m.choices, int(ds[k]))
			if k > 0 {
				m.Res.Probed = append(m.Res.Probed, int(ds[k]))
			}
			return m.C.BVC(uint64(ds[k]), 64)
		},
		// vfCtxDone(ctx): has this context been cancelled (natively: ctx.Err() != nil)
		"vfCtxDone": func(m *Machine, fr *frame, fn *ssa.Function, a []Value) Value {
			return m.ctxCancelled(a[0])
		},
		"vfConcrete": func(m *Machine, fr *frame, fn *ssa.Function, a []Value) Value {
			v := m.concretize(a[0].(T), true)
			return m.C.BVC(uint64(v), 64)
		},
		"vfFn": func(m *Machine, fr *frame, fn *ssa.Function, a []Value) Value {
			return m.uf(m.concStr(a[0]), a[1].(Slice), smt.BV(64))
		},
		"vfPred": func(m *Machine, fr *frame, fn *ssa.Function, a []Value) Value {
			r := m.uf(m.concStr(a[0]), a[1].(Slice), smt.BV(64))
			return m.C.Not(m.C.Eq(r, m.C.BVC(0, 64)))
		},
		"vfAnd": func(m *Machine, fr *frame, fn *ssa.Function, a []Value) Value { return m.C.And(a[0].(T), a[1].(T)) },
		"vfOr":  func(m *Machine, fr *frame, fn *ssa.Function, a []Value) Value { return m.C.Or(a[0].(T), a[1].(T)) },
		"vfImplies": func(m *Machine, fr *frame, fn *ssa.Function, a []Value) Value {
			return m.C.Implies(a[0].(T), a[1].(T))
		},
		"vfIte": func(m *Machine, fr *frame, fn *ssa.Function, a []Value) Value {
			return m.C.Ite(a[0].(T), a[1].(T), a[2].(T))
		},
		"vfIteBool": func(m *Machine, fr *frame, fn *ssa.Function, a []Value) Value {
			return m.C.Ite(a[0].(T), a[1].(T), a[2].(T))
		},
		"vfEq": func(m *Machine, fr *frame, fn *ssa.Function, a []Value) Value {
			return m.deepEq(fr, a[0], a[1], map[[2]interface{}]bool{})
		},
		"vfNumStr": func(m *Machine, fr *frame, fn *ssa.Function, a []Value) Value {
			return m.C.App("numstr", smt.Str, a[0].(T))
		},
		"vfStr": func(m *Machine, fr *frame, fn *ssa.Function, a []Value) Value {
			n := m.uniqueName(m.concStr(a[0]))
			t := m.C.Var(n, smt.Str)
			m.inputs = append(m.inputs, inputRec{name: n, typ: "string", term: t, isS: true})
			return t
		},
		"vfSnapshot": func(m *Machine, fr *frame, fn *ssa.Function, a []Value) Value {
			sl := a[0].(Slice)
			var cells []snapCell
			seen := map[*Value]bool{}
			for i := 0; i < sl.Len; i++ {
				m.snapWalk(sl.Arr.Elems[sl.Off+i], &cells, seen, map[*MapObj]bool{})
			}
			m.snapshots = append(m.snapshots, cells)
			return m.C.BVC(uint64(len(m.snapshots)-1), 64)
		},
		"vfUnchanged": func(m *Machine, fr *frame, fn *ssa.Function, a []Value) Value {
			label := m.concStr(a[0])
			id := int(m.concretize(a[1].(T), true))
			ok := m.C.True()
			for _, c := range m.snapshots[id] {
				ok = m.C.And(ok, m.snapSame(fr, c))
			}
			m.assert(label, ok, fr.curPos)
			return nil
		},
		"vfSameStorage": func(m *Machine, fr *frame, fn *ssa.Function, a []Value) Value {
			return m.C.BoolC(sameStorage(a[0].(Iface).V, a[1].(Iface).V))
		},
		"vfIsConcrete": func(m *Machine, fr *frame, fn *ssa.Function, a []Value) Value { return m.C.True() },
		"vfLog": func(m *Machine, fr *frame, fn *ssa.Function, a []Value) Value {
			sl := a[1].(Slice)
			var parts []string
			for i := 0; i < sl.Len; i++ {
				parts = append(parts, describe(sl.Arr.Elems[sl.Off+i]))
			}
			m.logs = append(m.logs, m.concStr(a[0])+" "+strings.Join(parts, " "))
			return nil
		},
		"vfQuiesce": func(m *Machine, fr *frame, fn *ssa.Function, a []Value) Value {
			m.quiesceWaiter = m.cur
			m.quiesced = false
			// timers due within 10 s of virtual time still count as activity; later ones (idle expiry "longer than
			// the run") stay pending
			m.quiesceDeadline = m.now + 10_000_000_000
			m.blockUntil("quiesce", func() bool { return m.quiesced })
			m.quiesceWaiter = nil
			m.quiesced = false
			return nil
		},
		"vfGoroutineID": func(m *Machine, fr *frame, fn *ssa.Function, a []Value) Value {
			return m.C.BVC(uint64(m.cur.id), 64)
		},
		"vfSetMapOrder": func(m *Machine, fr *frame, fn *ssa.Function, a []Value) Value {
			m.mapOrder = int(m.concretize(a[0].(T), true))
			return nil
		},
		// vfSetPoolMode(1): sync.Pool behaves as a plain LIFO cache (Get returns the most recently Put object, New() when
		// there is none; nothing is dropped) - what a single goroutine normally sees; no decision is spent on it.
		"vfSetPoolMode": func(m *Machine, fr *frame, fn *ssa.Function, a []Value) Value {
			m.poolMode = int(m.concretize(a[0].(T), true))
			return nil
		},
		"vfSetDelayBound": func(m *Machine, fr *frame, fn *ssa.Function, a []Value) Value {
			m.Opt.DelayBound = int(m.concretize(a[0].(T), true))
			return nil
		},
		"vfMemPoints": func(m *Machine, fr *frame, fn *ssa.Function, a []Value) Value {
			m.memPoints = m.branch(a[0].(T))
			return nil
		},
		"vfTier": func(m *Machine, fr *frame, fn *ssa.Function, a []Value) Value { return m.C.BVC(uint64(m.Opt.Tier), 64) },
		"vfNow":  func(m *Machine, fr *frame, fn *ssa.Function, a []Value) Value { return m.C.BVC(uint64(m.now), 64) },
		"vfPoint": func(m *Machine, fr *frame, fn *ssa.Function, a []Value) Value {
			m.cur.points++
			if id, ok := a[0].(T); ok && id.IsConst() {
				if pos, ok := m.P.Points[int(id.Val)]; ok {
					m.cur.lastPoint = pos
				}
			}
			m.yield("point")
			return nil
		},
		"vfSleep": func(m *Machine, fr *frame, fn *ssa.Function, a []Value) Value {
			m.sleep(m.concretize(a[0].(T), true))
			return nil
		},
		"vfSpawn": func(m *Machine, fr *frame, fn *ssa.Function, a []Value) Value { return m.C.BVC(uint64(len(m.gs)), 64) },
		"vfEnter": func(m *Machine, fr *frame, fn *ssa.Function, a []Value) Value { return nil },
		"vfExit":  func(m *Machine, fr *frame, fn *ssa.Function, a []Value) Value { return nil },
		"vfLockHeld": func(m *Machine, fr *frame, fn *ssa.Function, a []Value) Value {
			// 0 = free, 1 = read-locked, 2 = write-locked
			p := a[0].(Iface).V.(*Value)
			s := m.mutexOf(p)
			switch {
			case s.writer:
				return m.C.BVC(2, 64)
			case s.readers > 0:
				return m.C.BVC(1, 64)
			}
			return m.C.BVC(0, 64)
		},
		"vfMonitorWrites": hMonitorWrites,
		"vfMonitorResult": hMonitorResult,
	}
}

func (m *Machine) uf(name string, args Slice, ret smt.Sort) T {
	var ts []T
	for i := 0; i < args.Len; i++ {
		ts = append(ts, args.Arr.Elems[args.Off+i].(T))
	}
	t := m.C.App(fmt.Sprintf("%s/%d", name, len(ts)), ret, ts...)
	for _, a := range m.apps {
		if a.ret == t {
			return t
		}
	}
	m.apps = append(m.apps, appRec{fn: name, args: ts, ret: t})
	return t
}

// ---- snapshots ----

type snapCell struct {
	p   *Value
	old Value
	mo  *MapObj
	n   int
}

func (m *Machine) snapWalk(v Value, cells *[]snapCell, seen map[*Value]bool, seenM map[*MapObj]bool) {
	switch x := v.(type) {
	case Iface:
		if x.T != nil {
			m.snapWalk(x.V, cells, seen, seenM)
		}
	case *Value:
		if x == nil || seen[x] {
			return
		}
		m.snapCellRec(x, cells, seen, seenM)
	case Slice:
		if x.Arr == nil {
			return
		}
		for i := range x.Arr.Elems {
			p := &x.Arr.Elems[i]
			if !seen[p] {
				m.snapCellRec(p, cells, seen, seenM)
			}
		}
	case Struct:
		for _, f := range x {
			m.snapWalk(f, cells, seen, seenM)
		}
	case Array:
		for _, f := range x {
			m.snapWalk(f, cells, seen, seenM)
		}
	case *MapObj:
		if x == nil || seenM[x] {
			return
		}
		seenM[x] = true
		*cells = append(*cells, snapCell{mo: x, n: len(x.Entries)})
		for _, e := range x.Entries {
			*cells = append(*cells, snapCell{p: &e.V, old: copyVal(e.V)})
			seen[&e.V] = true
			*cells = append(*cells, snapCell{p: &e.K, old: copyVal(e.K)})
			m.snapWalk(e.V, cells, seen, seenM)
		}
	}
}

func (m *Machine) snapCellRec(p *Value, cells *[]snapCell, seen map[*Value]bool, seenM map[*MapObj]bool) {
	seen[p] = true
	switch x := (*p).(type) {
	case Struct:
		for i := range x {
			m.snapCellRec(&x[i], cells, seen, seenM)
		}
		return
	case Array:
		for i := range x {
			m.snapCellRec(&x[i], cells, seen, seenM)
		}
		return
	}
	*cells = append(*cells, snapCell{p: p, old: copyVal(*p)})
	m.snapWalk(*p, cells, seen, seenM)
}

func (m *Machine) snapSame(fr *frame, c snapCell) T {
	if c.mo != nil {
		return m.C.BoolC(len(c.mo.Entries) == c.n)
	}
	return m.shallowSame(fr, c.old, *c.p)
}

// shallowSame: same scalar value / same reference (pointer, slice header, map, chan, func identity).
func (m *Machine) shallowSame(fr *frame, a, b Value) T {
	c := m.C
	switch x := a.(type) {
	case T:
		y, ok := b.(T)
		if !ok || y.S != x.S {
			if _, isStr := b.(string); isStr && x.S.K == smt.SStr {
				return c.Eq(x, m.strTerm(b))
			}
			return c.False()
		}
		return c.Eq(x, y)
	case string:
		switch y := b.(type) {
		case string:
			return c.BoolC(x == y)
		case T:
			return c.Eq(c.StrC(x), y)
		}
		return c.False()
	case *Value:
		y, ok := b.(*Value)
		return c.BoolC(ok && x == y)
	case Slice:
		y, ok := b.(Slice)
		return c.BoolC(ok && x == y)
	case *MapObj:
		y, ok := b.(*MapObj)
		return c.BoolC(ok && x == y)
	case *ChanObj:
		y, ok := b.(*ChanObj)
		return c.BoolC(ok && x == y)
	case Iface:
		y, ok := b.(Iface)
		if !ok {
			return c.False()
		}
		if x.T == nil || y.T == nil {
			return c.BoolC(x.T == nil && y.T == nil)
		}
		if !types.Identical(x.T, y.T) {
			return c.False()
		}
		return m.shallowSame(fr, x.V, y.V)
	case Struct:
		y, ok := b.(Struct)
		if !ok || len(x) != len(y) {
			return c.False()
		}
		r := c.True()
		for i := range x {
			r = c.And(r, m.shallowSame(fr, x[i], y[i]))
		}
		return r
	case Array:
		y, ok := b.(Array)
		if !ok || len(x) != len(y) {
			return c.False()
		}
		r := c.True()
		for i := range x {
			r = c.And(r, m.shallowSame(fr, x[i], y[i]))
		}
		return r
	case *Closure:
		y, ok := b.(*Closure)
		return c.BoolC(ok && x == y)
	case *ssa.Function:
		y, ok := b.(*ssa.Function)
		return c.BoolC(ok && x == y)
	case nil:
		return c.BoolC(b == nil)
	case complex128:
		y, ok := b.(complex128)
		return c.BoolC(ok && x == y)
	case RType:
		y, ok := b.(RType)
		return c.BoolC(ok && types.Identical(x.T, y.T))
	}
	return c.BoolC(false)
}

func storageOf(v Value) interface{} {
	switch x := v.(type) {
	case Slice:
		if x.Arr == nil {
			return nil
		}
		return x.Arr
	case *MapObj:
		if x == nil {
			return nil
		}
		return x
	case *Value:
		if x == nil {
			return nil
		}
		// pointer to a slice/map header (e.g. *StreamDef): look through
		switch y := (*x).(type) {
		case Slice, *MapObj:
			return storageOf(y)
		case Struct:
			if len(y) == 1 {
				return storageOf(y[0])
			}
		}
		return x
	case Struct:
		if len(x) == 1 {
			return storageOf(x[0])
		}
	case Iface:
		return storageOf(x.V)
	}
	return nil
}

func sameStorage(a, b Value) bool {
	sa, sb := storageOf(a), storageOf(b)
	return sa != nil && sa == sb
}

// deepEq: structural equality following pointers, slices (by elements) and maps (by key) — a Bool term.
func (m *Machine) deepEq(fr *frame, a, b Value, seen map[[2]interface{}]bool) T {
	c := m.C
	switch x := a.(type) {
	case Iface:
		y, ok := b.(Iface)
		if !ok {
			return c.False()
		}
		if x.T == nil || y.T == nil {
			return c.BoolC(x.T == nil && y.T == nil)
		}
		if !types.Identical(x.T, y.T) {
			return c.False()
		}
		return m.deepEq(fr, x.V, y.V, seen)
	case *Value:
		y, ok := b.(*Value)
		if !ok {
			return c.False()
		}
		if x == nil || y == nil {
			return c.BoolC(x == y)
		}
		if x == y || seen[[2]interface{}{x, y}] {
			return c.True()
		}
		seen[[2]interface{}{x, y}] = true
		return m.deepEq(fr, *x, *y, seen)
	case Slice:
		y, ok := b.(Slice)
		if !ok || x.Len != y.Len {
			return c.False()
		}
		r := c.True()
		for i := 0; i < x.Len; i++ {
			r = c.And(r, m.deepEq(fr, x.Arr.Elems[x.Off+i], y.Arr.Elems[y.Off+i], seen))
		}
		return r
	case Struct:
		y, ok := b.(Struct)
		if !ok || len(x) != len(y) {
			return c.False()
		}
		r := c.True()
		for i := range x {
			r = c.And(r, m.deepEq(fr, x[i], y[i], seen))
		}
		return r
	case Array:
		y, ok := b.(Array)
		if !ok || len(x) != len(y) {
			return c.False()
		}
		r := c.True()
		for i := range x {
			r = c.And(r, m.deepEq(fr, x[i], y[i], seen))
		}
		return r
	case *MapObj:
		y, ok := b.(*MapObj)
		if !ok {
			return c.False()
		}
		if x == nil || y == nil {
			return c.BoolC((x == nil || len(x.Entries) == 0) && (y == nil || len(y.Entries) == 0))
		}
		if len(x.Entries) != len(y.Entries) {
			return c.False()
		}
		// every key of x is in y with an equal value (keys within a map are pairwise distinct)
		r := c.True()
		for _, ex := range x.Entries {
			found := c.False()
			for _, ey := range y.Entries {
				found = c.Or(found, c.And(m.equals(fr, ex.K, ey.K), m.deepEq(fr, ex.V, ey.V, seen)))
			}
			r = c.And(r, found)
		}
		return r
	}
	return m.shallowSame(fr, a, b)
}

// ---- write monitor (lock-discipline lemmas) ----

func (m *Machine) noteWrite(p *Value) {
	if m.monitor != nil {
		m.monitor(p, true)
	}
	if m.memPoints {
		m.memPoint()
	}
}

func (m *Machine) noteRead(p *Value) {
	if m.monitor != nil {
		m.monitor(p, false)
	}
	if m.memPoints {
		m.memPoint()
	}
}

func (m *Machine) memPoint() {
	if len(m.gs) <= 1 || m.inInit {
		return
	}
	st := m.cur.stack
	if len(st) == 0 {
		return
	}
	fn := st[len(st)-1].fn
	for fn.Parent() != nil {
		fn = fn.Parent()
	}
	if strings.HasPrefix(fn.Name(), "vh") || strings.HasPrefix(fn.Name(), "vf") || strings.HasPrefix(fn.Name(), "ref") {
		return
	}
	m.yield("mem")
}

type monitorState struct {
	lock      *Value
	cells     map[*Value]bool
	badWrites int
	badReads  int
	writes    int
	reads     int
}

// vfMonitorWrites(lockPtr, roots...): from now on, every write to a cell reachable from roots at this moment must
// happen while *lockPtr is write-locked, every read while it is at least read-locked.
func hMonitorWrites(m *Machine, fr *frame, fn *ssa.Function, a []Value) Value {
	lock := a[0].(Iface).V.(*Value)
	sl := a[1].(Slice)
	var cells []snapCell
	seen := map[*Value]bool{}
	for i := 0; i < sl.Len; i++ {
		m.snapWalk(sl.Arr.Elems[sl.Off+i], &cells, seen, map[*MapObj]bool{})
	}
	ms := &monitorState{lock: lock, cells: seen}
	m.mon = ms
	m.monitor = func(p *Value, write bool) {
		if !ms.cells[p] {
			return
		}
		s := m.mutexOf(ms.lock)
		if write {
			ms.writes++
			if !s.writer {
				ms.badWrites++
			}
		} else {
			ms.reads++
			if !s.writer && s.readers == 0 {
				ms.badReads++
			}
		}
	}
	return nil
}

// vfMonitorResult() (badWrites, badReads, writes, reads int) and stops monitoring.
func hMonitorResult(m *Machine, fr *frame, fn *ssa.Function, a []Value) Value {
	ms := m.mon
	m.monitor = nil
	if ms == nil {
		return Tuple{m.C.BVC(0, 64), m.C.BVC(0, 64), m.C.BVC(0, 64), m.C.BVC(0, 64)}
	}
	return Tuple{m.C.BVC(uint64(ms.badWrites), 64), m.C.BVC(uint64(ms.badReads), 64), m.C.BVC(uint64(ms.writes), 64), m.C.BVC(uint64(ms.reads), 64)}
}
