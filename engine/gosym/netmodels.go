package gosym

import (
	"fmt"
	"go/types"
	"net/textproto"
	"net/url"
	"reflect"
	"strings"

	"golang.org/x/tools/go/ssa"

	"verif/engine/smt"
)

// Contract models of the parts of net/http, net/url, context and io that fpGo's network package touches (C17/C18).
// All strings are concrete in these harnesses, so URL parsing and header canonicalisation are done by the host's real
// net/url and net/textproto; (*http.Client).Do is "Transport.RoundTrip exactly once" (no redirects / jar configured by
// the code under test).

// HostFunc is a callable implemented by the engine (e.g. a context.CancelFunc).
type HostFunc struct {
	Name string
	Fn   func(m *Machine, fr *frame, args []Value) Value
}

func init() {
	add := func(name string, h handler) { intrinsics[name] = h }
	add("context.Background", func(m *Machine, fr *frame, fn *ssa.Function, a []Value) Value {
		return Iface{T: m.P.errorStringPtr, V: m.ctxToken("background")}
	})
	add("context.TODO", func(m *Machine, fr *frame, fn *ssa.Function, a []Value) Value {
		return Iface{T: m.P.errorStringPtr, V: m.ctxToken("todo")}
	})
	// a derived context is a token with a "cancelled" flag that its CancelFunc raises (deadlines themselves are far
	// beyond anything these harnesses wait for; the parent's cancellation is not propagated - no harness cancels one)
	cancellable := func(name string) handler {
		return func(m *Machine, fr *frame, fn *ssa.Function, a []Value) Value {
			tok := m.ctxToken(name).(*Value)
			cancel := &HostFunc{Name: "cancel", Fn: func(m *Machine, fr *frame, args []Value) Value {
				m.noteWrite(tok)
				*tok = Struct{(*tok).(Struct)[0], m.C.True()}
				return nil
			}}
			return Tuple{Iface{T: m.P.errorStringPtr, V: tok}, cancel}
		}
	}
	add("context.WithTimeout", cancellable("timeout"))
	add("context.WithCancel", cancellable("cancel"))
	add("context.WithDeadline", cancellable("deadline"))
	add("net/url.Parse", hURLParse)
	add("(*net/url.URL).String", hURLString)
	add("net/http.NewRequestWithContext", hNewRequest)
	add("net/http.NewRequest", func(m *Machine, fr *frame, fn *ssa.Function, a []Value) Value {
		return hNewRequest(m, fr, fn, append([]Value{Iface{T: m.P.errorStringPtr, V: m.ctxToken("background")}}, a...))
	})
	add("(*net/http.Client).Do", hClientDo)
	add("(net/http.Header).Clone", hHeaderClone)
	add("(net/http.Header).Add", hHeaderAdd)
	add("(net/http.Header).Set", hHeaderSet)
	add("(net/http.Header).Get", hHeaderGet)
	add("(net/http.Header).Del", hHeaderDel)
	add("(net/http.Header).Values", hHeaderValues)
	add("io.ReadAll", hReadAll)
	add("io/ioutil.ReadAll", hReadAll)
	add("(*net/http.Request).Context", func(m *Machine, fr *frame, fn *ssa.Function, a []Value) Value {
		if rp, ok := a[0].(*Value); ok && rp != nil {
			reqT := m.P.Pkgs["net/http"].Type("Request").Type()
			if c, ok := m.getField((*rp).(Struct), reqT, "ctx").(Iface); ok && c.T != nil {
				return c // the context the request was made with
			}
		}
		return Iface{T: m.P.errorStringPtr, V: m.ctxToken("background")}
	})
}

func (m *Machine) ctxToken(name string) Value {
	p := new(Value)
	*p = Struct{"context:" + name, m.C.False()}
	return p
}

// ctxCancelled: has the CancelFunc of this (model) context been called?
func (m *Machine) ctxCancelled(v Value) T {
	if i, ok := v.(Iface); ok {
		if p, ok := i.V.(*Value); ok && p != nil {
			if st, ok := (*p).(Struct); ok && len(st) == 2 {
				if s, ok := st[0].(string); ok && strings.HasPrefix(s, "context:") {
					return st[1].(T)
				}
			}
		}
	}
	return m.C.False()
}

func fieldIndex(t types.Type, name string) int {
	st, ok := t.Underlying().(*types.Struct)
	if !ok {
		return -1
	}
	for i := 0; i < st.NumFields(); i++ {
		if st.Field(i).Name() == name {
			return i
		}
	}
	return -1
}

func (m *Machine) setField(s Struct, t types.Type, name string, v Value) {
	i := fieldIndex(t, name)
	if i < 0 {
		m.engineErr("model: type %s has no field %s", t, name)
	}
	s[i] = v
}

func (m *Machine) getField(s Struct, t types.Type, name string) Value {
	i := fieldIndex(t, name)
	if i < 0 {
		m.engineErr("model: type %s has no field %s", t, name)
	}
	return s[i]
}

// hostToStruct converts a flat host struct (strings, bools, ints, nil pointers) into the interpreter's representation.
func (m *Machine) hostToStruct(hv reflect.Value, t types.Type) Struct {
	st := t.Underlying().(*types.Struct)
	out := m.zero(t).(Struct)
	for i := 0; i < st.NumFields(); i++ {
		f := hv.FieldByName(st.Field(i).Name())
		if !f.IsValid() {
			continue
		}
		switch f.Kind() {
		case reflect.String:
			out[i] = f.String()
		case reflect.Bool:
			out[i] = m.C.BoolC(f.Bool())
		case reflect.Int, reflect.Int64:
			out[i] = m.C.BVC(uint64(f.Int()), 64)
		}
	}
	return out
}

func (m *Machine) structToHostURL(s Struct, t types.Type) *url.URL {
	u := &url.URL{}
	str := func(name string) string {
		v, _ := m.getField(s, t, name).(string)
		return v
	}
	u.Scheme, u.Opaque, u.Host, u.Path, u.RawPath = str("Scheme"), str("Opaque"), str("Host"), str("Path"), str("RawPath")
	u.RawQuery, u.Fragment, u.RawFragment = str("RawQuery"), str("Fragment"), str("RawFragment")
	if b, ok := m.getField(s, t, "ForceQuery").(T); ok && b.IsTrue() {
		u.ForceQuery = true
	}
	return u
}

func (m *Machine) urlType() types.Type {
	p := m.P.Pkgs["net/url"]
	if p == nil {
		m.engineErr("package net/url not loaded")
	}
	return p.Type("URL").Type()
}

func hURLParse(m *Machine, fr *frame, fn *ssa.Function, a []Value) Value {
	s := m.concStr(a[0])
	u, err := url.Parse(s)
	if err != nil {
		return Tuple{(*Value)(nil), m.hostErr(err)}
	}
	p := new(Value)
	*p = m.hostToStruct(reflect.ValueOf(*u), m.urlType())
	return Tuple{p, Iface{}}
}

func hURLString(m *Machine, fr *frame, fn *ssa.Function, a []Value) Value {
	p := a[0].(*Value)
	if p == nil {
		m.runtimePanic(fr, "nil pointer dereference (*url.URL).String")
	}
	return m.structToHostURL((*p).(Struct), m.urlType()).String()
}

func validMethod(s string) bool {
	if s == "" {
		return false
	}
	for _, r := range s {
		if r <= ' ' || r >= 0x7f || strings.ContainsRune("()<>@,;:\\\"/[]?={}", r) {
			return false
		}
	}
	return true
}

func hNewRequest(m *Machine, fr *frame, fn *ssa.Function, a []Value) Value {
	ctx := a[0].(Iface)
	method := m.concStr(a[1])
	urlStr := m.concStr(a[2])
	body := a[3].(Iface)
	hp := m.P.Pkgs["net/http"]
	reqT := hp.Type("Request").Type()
	if method == "" {
		method = "GET"
	}
	if !validMethod(method) {
		return Tuple{(*Value)(nil), m.makeError(fmt.Sprintf("net/http: invalid method %q", method))}
	}
	if ctx.T == nil {
		return Tuple{(*Value)(nil), m.makeError("net/http: nil Context")}
	}
	u, err := url.Parse(urlStr)
	if err != nil {
		return Tuple{(*Value)(nil), m.hostErr(err)}
	}
	up := new(Value)
	*up = m.hostToStruct(reflect.ValueOf(*u), m.urlType())
	req := m.zero(reqT).(Struct)
	m.setField(req, reqT, "Method", method)
	m.setField(req, reqT, "URL", up)
	m.setField(req, reqT, "Proto", "HTTP/1.1")
	m.setField(req, reqT, "ProtoMajor", m.C.BVC(1, 64))
	m.setField(req, reqT, "ProtoMinor", m.C.BVC(1, 64))
	m.setField(req, reqT, "Host", u.Host)
	m.setField(req, reqT, "ctx", ctx)
	hdrT := hp.Type("Header").Type()
	mt := hdrT.Underlying().(*types.Map)
	m.setField(req, reqT, "Header", &MapObj{KT: mt.Key(), VT: mt.Elem(), ID: m.newID()})
	if body.T != nil {
		// like the real NewRequest: a body that is not already an io.ReadCloser is wrapped in io.NopCloser
		closer := false
		if ms := m.P.Prog.MethodSets.MethodSet(body.T); ms.Lookup(nil, "Close") != nil {
			closer = true
		}
		if !closer {
			if iop := m.P.Prog.ImportedPackage("io"); iop != nil && iop.Func("NopCloser") != nil {
				if wrapped, ok := m.call(iop.Func("NopCloser"), []Value{body}, fr, 0).(Iface); ok {
					body = wrapped
				}
			}
		}
		m.setField(req, reqT, "Body", body)
	}
	p := new(Value)
	*p = req
	return Tuple{p, Iface{}}
}

// (*http.Client).Do(req) = c.Transport.RoundTrip(req), once.
func hClientDo(m *Machine, fr *frame, fn *ssa.Function, a []Value) Value {
	cp := a[0].(*Value)
	if cp == nil {
		m.runtimePanic(fr, "nil pointer dereference (*http.Client).Do")
	}
	hp := m.P.Pkgs["net/http"]
	clientT := hp.Type("Client").Type()
	tr := m.getField((*cp).(Struct), clientT, "Transport").(Iface)
	if tr.T == nil {
		m.engineErr("model: http.Client without Transport (http.DefaultTransport / real sockets are outside the claim)")
	}
	rt := hp.Type("RoundTripper").Type().Underlying().(*types.Interface)
	var meth *types.Func
	for i := 0; i < rt.NumMethods(); i++ {
		if rt.Method(i).Name() == "RoundTrip" {
			meth = rt.Method(i)
		}
	}
	f := m.P.lookupMethod(tr.T, meth)
	if f == nil {
		m.engineErr("model: RoundTrip not found on %s", tr.T)
	}
	res := m.call(f, []Value{tr.V, a[1]}, fr, 0).(Tuple)
	resp, _ := res[0].(*Value)
	errv := res[1].(Iface)
	if errv.T != nil {
		// the real client wraps transport errors in *url.Error; callers only test for non-nil
		return Tuple{(*Value)(nil), errv}
	}
	if resp == nil {
		return Tuple{(*Value)(nil), m.makeError("http: RoundTripper implementation returned a nil *Response with a nil error")}
	}
	return Tuple{resp, Iface{}}
}

// ---- http.Header (map[string][]string) ----

func (m *Machine) canonKey(v Value) string {
	return textproto.CanonicalMIMEHeaderKey(m.concStr(v))
}

func (m *Machine) headerFind(h *MapObj, key string) *MapEntry {
	if h == nil {
		return nil
	}
	for _, e := range h.Entries {
		if k, ok := e.K.(string); ok && k == key {
			return e
		}
	}
	return nil
}

func hHeaderClone(m *Machine, fr *frame, fn *ssa.Function, a []Value) Value {
	h := a[0].(*MapObj)
	if h == nil {
		return (*MapObj)(nil)
	}
	n := &MapObj{KT: h.KT, VT: h.VT, ID: m.newID()}
	for _, e := range h.Entries {
		sl := e.V.(Slice)
		var cp Slice
		if sl.Arr != nil {
			arr := &ArrObj{ID: m.newID()}
			for i := 0; i < sl.Len; i++ {
				arr.Elems = append(arr.Elems, copyVal(sl.Arr.Elems[sl.Off+i]))
			}
			cp = Slice{Arr: arr, Len: sl.Len, Cap: sl.Len}
		}
		n.Entries = append(n.Entries, &MapEntry{K: e.K, V: cp})
	}
	return n
}

func hHeaderAdd(m *Machine, fr *frame, fn *ssa.Function, a []Value) Value {
	h := a[0].(*MapObj)
	if h == nil {
		m.runtimePanic(fr, "assignment to entry in nil map")
	}
	key := m.canonKey(a[1])
	if e := m.headerFind(h, key); e != nil {
		sl := e.V.(Slice)
		arr := &ArrObj{ID: m.newID()}
		for i := 0; i < sl.Len; i++ {
			arr.Elems = append(arr.Elems, sl.Arr.Elems[sl.Off+i])
		}
		arr.Elems = append(arr.Elems, a[2])
		e.V = Slice{Arr: arr, Len: len(arr.Elems), Cap: len(arr.Elems)}
		return nil
	}
	arr := &ArrObj{ID: m.newID(), Elems: []Value{a[2]}}
	h.Entries = append(h.Entries, &MapEntry{K: key, V: Slice{Arr: arr, Len: 1, Cap: 1}})
	return nil
}

func hHeaderSet(m *Machine, fr *frame, fn *ssa.Function, a []Value) Value {
	h := a[0].(*MapObj)
	if h == nil {
		m.runtimePanic(fr, "assignment to entry in nil map")
	}
	key := m.canonKey(a[1])
	arr := &ArrObj{ID: m.newID(), Elems: []Value{a[2]}}
	v := Slice{Arr: arr, Len: 1, Cap: 1}
	if e := m.headerFind(h, key); e != nil {
		e.V = v
		return nil
	}
	h.Entries = append(h.Entries, &MapEntry{K: key, V: v})
	return nil
}

func hHeaderGet(m *Machine, fr *frame, fn *ssa.Function, a []Value) Value {
	h := a[0].(*MapObj)
	if e := m.headerFind(h, m.canonKey(a[1])); e != nil {
		sl := e.V.(Slice)
		if sl.Len > 0 {
			return sl.Arr.Elems[sl.Off]
		}
	}
	return ""
}

func hHeaderValues(m *Machine, fr *frame, fn *ssa.Function, a []Value) Value {
	h := a[0].(*MapObj)
	if e := m.headerFind(h, m.canonKey(a[1])); e != nil {
		return e.V
	}
	return Slice{}
}

func hHeaderDel(m *Machine, fr *frame, fn *ssa.Function, a []Value) Value {
	h := a[0].(*MapObj)
	if h == nil {
		return nil
	}
	key := m.canonKey(a[1])
	for i, e := range h.Entries {
		if k, ok := e.K.(string); ok && k == key {
			e.Deleted = true
			h.Entries = append(append([]*MapEntry(nil), h.Entries[:i]...), h.Entries[i+1:]...)
			return nil
		}
	}
	return nil
}

// io.ReadAll(r): calls r.Read until it reports an error; io.EOF (the package variable, initialised by running io's
// bare init) ends the read successfully.
func hReadAll(m *Machine, fr *frame, fn *ssa.Function, a []Value) Value {
	r := a[0].(Iface)
	if r.T == nil {
		m.runtimePanic(fr, "nil pointer dereference (io.ReadAll of nil reader)")
	}
	iop := m.P.Pkgs["io"]
	readerI := iop.Type("Reader").Type().Underlying().(*types.Interface)
	f := m.P.lookupMethod(r.T, readerI.Method(0))
	if f == nil {
		m.engineErr("model: Read not found on %s", r.T)
	}
	eof := *m.globalAddr(iop.Var("EOF"))
	out := &ArrObj{ID: m.newID()}
	byteT := types.Typ[types.Uint8]
	for rounds := 0; rounds < 64; rounds++ {
		buf := &ArrObj{ID: m.newID(), Elems: make([]Value, 8)}
		for i := range buf.Elems {
			buf.Elems[i] = m.zero(byteT)
		}
		res := m.call(f, []Value{r.V, Slice{Arr: buf, Len: 8, Cap: 8}}, fr, 0).(Tuple)
		n := int(m.concretize(res[0].(T), true))
		for i := 0; i < n && i < 8; i++ {
			out.Elems = append(out.Elems, buf.Elems[i])
		}
		errv := res[1].(Iface)
		if errv.T != nil {
			if m.branch(m.equals(fr, errv, eof)) {
				return Tuple{Slice{Arr: out, Len: len(out.Elems), Cap: len(out.Elems)}, Iface{}}
			}
			return Tuple{Slice{Arr: out, Len: len(out.Elems), Cap: len(out.Elems)}, errv}
		}
	}
	m.end(StUnwind, "io.ReadAll model: reader did not finish within 64 reads")
	return nil
}

var _ = smt.Bool
