package gosym

import (
	"go/token"
	"go/types"

	"golang.org/x/tools/go/ssa"
)

func (m *Machine) lenOf(v Value) int {
	switch x := v.(type) {
	case string:
		return len(x)
	case T:
		if d, ok := m.degradeNumeral(x); ok {
			return len(d)
		}
	case Slice:
		return x.Len
	case Array:
		return len(x)
	case *MapObj:
		if x == nil {
			return 0
		}
		return len(x.Entries)
	case *ChanObj:
		if x == nil {
			return 0
		}
		return len(x.Buf)
	case *Value: // pointer to array
		if x == nil {
			return 0
		}
		return len((*x).(Array))
	}
	m.engineErr("len of %T", v)
	return 0
}

func (m *Machine) callBuiltin(b *ssa.Builtin, args []Value, fr *frame, pos token.Pos) Value {
	switch b.Name() {
	case "len", "cap":
		if len(args) == 1 {
			if _, ok := args[0].(*ChanObj); ok {
				m.markVisible()
			}
		}
	case "append", "copy", "delete", "close", "clear", "recover", "panic":
		m.markVisible()
	}
	c := m.C
	switch b.Name() {
	case "len":
		return c.BVC(uint64(m.lenOf(args[0])), 64)
	case "cap":
		switch x := args[0].(type) {
		case Slice:
			return c.BVC(uint64(x.Cap), 64)
		case *ChanObj:
			if x == nil {
				return c.BVC(0, 64)
			}
			return c.BVC(uint64(x.Cap), 64)
		case Array:
			return c.BVC(uint64(len(x)), 64)
		}
		m.engineErr("cap of %T", args[0])
	case "append":
		dst := args[0].(Slice)
		var src []Value
		switch s := args[1].(type) {
		case Slice:
			for i := 0; i < s.Len; i++ {
				src = append(src, copyVal(s.Arr.Elems[s.Off+i]))
			}
		case string:
			for i := 0; i < len(s); i++ {
				src = append(src, c.BVC(uint64(s[i]), 8))
			}
		default:
			m.engineErr("append of %T", args[1])
		}
		if len(src) == 0 {
			return dst
		}
		n := dst.Len + len(src)
		if dst.Arr != nil && n <= dst.Cap {
			for i, v := range src {
				p := &dst.Arr.Elems[dst.Off+dst.Len+i]
				m.noteWrite(p)
				store(p, v)
			}
			return Slice{Arr: dst.Arr, Off: dst.Off, Len: n, Cap: dst.Cap}
		}
		// grow: new backing array. Capacity policy: exactly what Go's growslice would not promise; we use
		// the real runtime's rule for small slices (double, min needed) to keep capacities realistic.
		newCap := dst.Cap * 2
		if newCap < n {
			newCap = n
		}
		et := b.Type().(*types.Signature).Results().At(0).Type().Underlying().(*types.Slice).Elem()
		arr := &ArrObj{Elems: make([]Value, newCap), ID: m.newID()}
		for i := 0; i < dst.Len; i++ {
			arr.Elems[i] = copyVal(dst.Arr.Elems[dst.Off+i])
		}
		for i, v := range src {
			arr.Elems[dst.Len+i] = v
		}
		for i := n; i < newCap; i++ {
			arr.Elems[i] = m.zero(et)
		}
		return Slice{Arr: arr, Off: 0, Len: n, Cap: newCap}
	case "copy":
		dst := args[0].(Slice)
		n := dst.Len
		switch s := args[1].(type) {
		case Slice:
			if s.Len < n {
				n = s.Len
			}
			tmp := make([]Value, n)
			for i := 0; i < n; i++ {
				tmp[i] = copyVal(s.Arr.Elems[s.Off+i])
			}
			for i := 0; i < n; i++ {
				p := &dst.Arr.Elems[dst.Off+i]
				m.noteWrite(p)
				store(p, tmp[i])
			}
		case string:
			if len(s) < n {
				n = len(s)
			}
			for i := 0; i < n; i++ {
				dst.Arr.Elems[dst.Off+i] = c.BVC(uint64(s[i]), 8)
			}
		}
		return c.BVC(uint64(n), 64)
	case "delete":
		m.mapDelete(fr, args[0].(*MapObj), args[1])
		return nil
	case "close":
		m.chanClose(fr, args[0].(*ChanObj))
		return nil
	case "panic":
		panic(&goPanic{val: args[0], pos: fr.curPos})
	case "recover":
		return m.doRecover(fr)
	case "print", "println":
		return nil
	case "ssa:wrapnilchk":
		recv := args[0]
		if p, ok := recv.(*Value); ok && p == nil {
			m.runtimePanic(fr, "value method %s called using nil pointer", describe(args[2]))
		}
		return recv
	case "min", "max":
		m.engineErr("builtin %s unsupported", b.Name())
	}
	m.engineErr("builtin %s unsupported", b.Name())
	return nil
}

// doRecover implements recover(): legal only when called directly by a deferred function
// while its caller is panicking.
func (m *Machine) doRecover(fr *frame) Value {
	caller := fr.caller
	if caller != nil && caller.panicking {
		caller.panicking = false
		v := caller.panicVal
		caller.panicVal = nil
		if v == nil {
			return Iface{}
		}
		return v
	}
	return Iface{}
}
