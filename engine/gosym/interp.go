package gosym

import (
	"fmt"
	"go/constant"
	"go/token"
	"go/types"
	"strings"

	"golang.org/x/tools/go/ssa"

	"verif/engine/smt"
)

type deferred struct {
	fn    Value
	args  []Value
	instr *ssa.Defer
}

type frame struct {
	m         *Machine
	g         *goroutine
	caller    *frame
	fn        *ssa.Function
	block     *ssa.BasicBlock
	prev      *ssa.BasicBlock
	env       map[ssa.Value]Value
	locals    []Value
	defers    []deferred
	result    Value
	panicking bool
	panicVal  Value
	panicPos  string
	curPos    string
	harness   int
	visits    map[int]int
	symIters  int         // symbolic branch decisions taken in this frame so far
	symSeen   map[int]int // per block: symIters at its last counted visit
}

// goPanic is an interpreted-program panic travelling up the Go stack.
type goPanic struct {
	val Value // Iface
	pos string
}

type continuation int

const (
	kNext continuation = iota
	kReturn
	kJump
)

func (fr *frame) get(v ssa.Value) Value {
	switch v := v.(type) {
	case nil:
		return nil
	case *ssa.Const:
		return fr.m.constValue(v)
	case *ssa.Global:
		return fr.m.globalAddr(v)
	case *ssa.Function:
		return v
	case *ssa.Builtin:
		return v
	}
	if r, ok := fr.env[v]; ok {
		return r
	}
	fr.m.engineErr("get: no value for %T %s in %s", v, v.Name(), fr.fn)
	return nil
}

func (m *Machine) globalAddr(g *ssa.Global) *Value {
	if p, ok := m.globals[g]; ok {
		return p
	}
	p := new(Value)
	*p = m.zero(g.Type().(*types.Pointer).Elem())
	// package initialisers are not executed (BareInits): the few library globals that code under test may read get
	// their documented initial value here
	if g.Pkg != nil && g.Pkg.Pkg.Path() == "net/http" && g.Name() == "DefaultClient" {
		// var DefaultClient = &Client{}
		if pt, ok := g.Type().(*types.Pointer).Elem().(*types.Pointer); ok {
			cell := new(Value)
			*cell = m.zero(pt.Elem())
			*p = cell
		}
	}
	m.globals[g] = p
	return p
}

func (m *Machine) constValue(c *ssa.Const) Value {
	t := c.Type()
	if c.Value == nil {
		return m.zero(t)
	}
	if tp, ok := t.(*types.TypeParam); ok {
		_ = tp
		m.engineErr("const of type parameter type")
	}
	if isBool(t) {
		return m.C.BoolC(constant.BoolVal(c.Value))
	}
	if isString(t) {
		if c.Value.Kind() == constant.String {
			return constant.StringVal(c.Value)
		}
		// int constant converted to string
		return string(rune(c.Int64()))
	}
	if k, ok := basicInfo(t); ok {
		if k.float {
			f := c.Float64()
			if k.width == 32 {
				return m.C.F32(float32(f))
			}
			return m.C.F64(f)
		}
		if k.signed {
			return m.C.BVC(uint64(c.Int64()), k.width)
		}
		return m.C.BVC(c.Uint64(), k.width)
	}
	if b, ok := t.Underlying().(*types.Basic); ok && (b.Kind() == types.Complex128 || b.Kind() == types.Complex64 || b.Kind() == types.UntypedComplex) {
		return c.Complex128()
	}
	m.engineErr("constValue: unsupported %s of type %s", c, t)
	return nil
}

// zero returns the zero value of type t.
func (m *Machine) zero(t types.Type) Value {
	if isReflectValueType(t) {
		return RValue{}
	}
	switch u := t.Underlying().(type) {
	case *types.Basic:
		if u.Kind() == types.UnsafePointer {
			return (*Value)(nil)
		}
		if u.Kind() == types.UntypedNil {
			return Iface{}
		}
		if isBool(t) {
			return m.C.False()
		}
		if isString(t) {
			return ""
		}
		if k, ok := basicInfo(t); ok {
			if k.float {
				return m.C.FPC(0, k.width)
			}
			return m.C.BVC(0, k.width)
		}
		if u.Kind() == types.Complex128 || u.Kind() == types.Complex64 {
			return complex128(0)
		}
	case *types.Pointer:
		return (*Value)(nil)
	case *types.Struct:
		s := make(Struct, u.NumFields())
		for i := range s {
			s[i] = m.zero(u.Field(i).Type())
		}
		return s
	case *types.Array:
		a := make(Array, u.Len())
		for i := range a {
			a[i] = m.zero(u.Elem())
		}
		return a
	case *types.Slice:
		return Slice{}
	case *types.Map:
		return (*MapObj)(nil)
	case *types.Chan:
		return (*ChanObj)(nil)
	case *types.Signature:
		return (*Closure)(nil)
	case *types.Interface:
		return Iface{}
	case *types.Tuple:
		tu := make(Tuple, u.Len())
		for i := range tu {
			tu[i] = m.zero(u.At(i).Type())
		}
		return tu
	}
	m.engineErr("zero: unsupported type %s", t)
	return nil
}

func isNilFunc(v Value) bool {
	switch f := v.(type) {
	case nil:
		return true
	case *Closure:
		return f == nil
	case *HostFunc:
		return f == nil
	case *ssa.Function:
		return f == nil
	case *ssa.Builtin:
		return f == nil
	}
	return false
}

// ---- panics ----

func (m *Machine) runtimePanic(fr *frame, format string, a ...interface{}) {
	msg := "runtime error: " + fmt.Sprintf(format, a...)
	pos := ""
	if fr != nil {
		pos = fr.curPos
	}
	panic(&goPanic{val: Iface{T: m.P.runtimeErrType(), V: msg}, pos: pos})
}

// ---- calls ----

func (m *Machine) call(fn Value, args []Value, caller *frame, pos token.Pos) Value {
	switch f := fn.(type) {
	case *ssa.Function:
		if f == nil {
			m.runtimePanic(caller, "invalid memory address or nil pointer dereference (nil func)")
		}
		return m.callFunction(f, args, nil, caller, pos)
	case *Closure:
		if f == nil {
			m.runtimePanic(caller, "invalid memory address or nil pointer dereference (nil func)")
		}
		return m.callFunction(f.Fn, args, f.Env, caller, pos)
	case *ssa.Builtin:
		return m.callBuiltin(f, args, caller, pos)
	case *rtypeMethod:
		return m.callRTypeMethod(caller, f, args)
	case *HostFunc:
		if f == nil {
			m.runtimePanic(caller, "invalid memory address or nil pointer dereference (nil func)")
		}
		return f.Fn(m, caller, args)
	case nil:
		m.runtimePanic(caller, "invalid memory address or nil pointer dereference (nil func)")
	}
	m.engineErr("call of %T", fn)
	return nil
}

func (m *Machine) callFunction(fn *ssa.Function, args []Value, env []Value, caller *frame, pos token.Pos) Value {
	name := fn.String()
	if fn.Origin() != nil {
		name = fn.Origin().String()
	}
	if h, ok := m.intrinsic(fn, name); ok {
		if !pureIntrinsic[fn.Name()] {
			m.markVisible()
		}
		return h(m, caller, fn, args)
	}
	if fn.Blocks == nil {
		if fn.Pkg != nil {
			fn.Pkg.Build()
		}
		if fn.Blocks == nil {
			m.engineErr("call of function without body (unmodelled external): %s", name)
		}
	}
	if len(m.cur.stack) > 400 {
		pk := fn.Pkg
		if pk == nil && fn.Origin() != nil {
			pk = fn.Origin().Pkg // instantiation of a generic function
		}
		if pk != nil && m.P.isHarnessPkg(pk) {
			// runaway recursion in the code under test: natively a fatal "stack overflow" that nothing can recover.
			// Reported as a crash candidate - the native replay decides (a merely deep, terminating recursion does not
			// reproduce and is then an ENGINE-DIVERGENCE, i.e. inconclusive, as before).
			msg := fmt.Sprintf("fatal error: stack overflow (call depth > 400 in %s)", name)
			m.logs = append(m.logs, msg)
			m.modelViolation("crash", nil, "", msg)
			m.end(StCrash, "%s", msg)
		}
		m.end(StUnwind, "call depth > 400 in %s", name)
	}
	fr := &frame{m: m, g: m.cur, caller: caller, fn: fn, env: make(map[ssa.Value]Value, 16), visits: map[int]int{}, symSeen: map[int]int{}}
	for i, p := range fn.Params {
		fr.env[p] = args[i]
	}
	for i, fv := range fn.FreeVars {
		fr.env[fv] = env[i]
	}
	fr.locals = make([]Value, len(fn.Locals))
	for i, l := range fn.Locals {
		fr.locals[i] = m.zero(l.Type().(*types.Pointer).Elem())
		p := &fr.locals[i]
		fr.env[l] = p
	}
	m.cur.stack = append(m.cur.stack, fr)
	m.Res.Funcs[name] += 0
	fr.block = fn.Blocks[0]
	fr.run()
	m.cur.stack = m.cur.stack[:len(m.cur.stack)-1]
	return fr.result
}

// run executes the frame to completion, implementing defer/recover like ssa/interp.
func (fr *frame) run() {
	for {
		done := fr.runBlocks()
		if done {
			return
		}
	}
}

func (fr *frame) runBlocks() (done bool) {
	defer func() {
		if done {
			return
		}
		r := recover()
		if r == nil {
			return
		}
		gp, ok := r.(*goPanic)
		if !ok {
			panic(r) // engine control flow (pathEnd) or engine bug
		}
		fr.panicking = true
		fr.panicVal = gp.val
		fr.panicPos = gp.pos
		fr.runDefers()
		// if recovered, function returns normally via the Recover block
		if fr.panicking {
			panic(&goPanic{val: fr.panicVal, pos: fr.panicPos})
		}
		if fr.fn.Recover != nil {
			fr.block = fr.fn.Recover
			fr.prev = nil
			done = false
			// continue executing at recover block: handled by loop in run()
			return
		}
		// no named results: return zero values
		fr.result = fr.m.zeroResults(fr.fn)
		done = true
	}()
	m := fr.m
	for {
		b := fr.block
		// the unwinding bound limits loops whose trip count depends on SYMBOLIC data (a block re-entered with solver-
		// decided branches in between); loops with a concrete trip count are plain execution, bounded by the step limit
		if fr.symIters != fr.symSeen[b.Index] || fr.visits[b.Index] == 0 {
			fr.visits[b.Index]++
			fr.symSeen[b.Index] = fr.symIters
		}
		if !fr.isHarness() {
			cov := m.Res.Blocks[fr.fn]
			if cov == nil {
				cov = make([]bool, len(fr.fn.Blocks))
				m.Res.Blocks[fr.fn] = cov
			}
			cov[b.Index] = true
		}
		if fr.visits[b.Index] > m.Opt.LoopBound && !fr.isHarness() {
			m.end(StUnwind, "loop bound %d exceeded in %s block %d", m.Opt.LoopBound, fr.fn, b.Index)
		}
		jumped := false
		for _, instr := range b.Instrs {
			m.Res.Steps++
			if m.Res.Steps > m.Opt.MaxSteps {
				m.end(StStepLimit, "step limit")
			}
			switch fr.visit(instr) {
			case kReturn:
				return true
			case kJump:
				jumped = true
			}
			if jumped {
				break
			}
		}
		if !jumped {
			m.engineErr("block fell through in %s", fr.fn)
		}
	}
}

func (m *Machine) zeroResults(fn *ssa.Function) Value {
	res := fn.Signature.Results()
	switch res.Len() {
	case 0:
		return nil
	case 1:
		return m.zero(res.At(0).Type())
	}
	return m.zero(res)
}

func (fr *frame) runDefers() {
	for len(fr.defers) > 0 {
		d := fr.defers[len(fr.defers)-1]
		fr.defers = fr.defers[:len(fr.defers)-1]
		fr.runDefer(d)
	}
}

func (fr *frame) runDefer(d deferred) {
	ok := false
	defer func() {
		if ok {
			return
		}
		r := recover()
		gp, isGP := r.(*goPanic)
		if !isGP {
			panic(r)
		}
		// deferred call panicked: replaces the current panic
		fr.panicking = true
		fr.panicVal = gp.val
		fr.panicPos = gp.pos
	}()
	fr.m.call(d.fn, d.args, fr, d.instr.Pos())
	ok = true
}

// ---- instruction dispatch ----

func (fr *frame) visit(instr ssa.Instruction) continuation {
	m := fr.m
	if p := instr.Pos(); p.IsValid() {
		fr.curPos = m.P.posOf(p)
	}
	switch in := instr.(type) {
	case *ssa.DebugRef:
	case *ssa.UnOp:
		if in.Op == token.ARROW || (in.Op == token.MUL && !localAddr(in.X)) {
			m.markVisible()
		}
		fr.env[in] = m.unop(fr, in, fr.get(in.X))
	case *ssa.BinOp:
		fr.env[in] = m.binop(fr, in.Op, in.X.Type(), fr.get(in.X), fr.get(in.Y))
	case *ssa.Call:
		fn, args := fr.prepareCall(&in.Call)
		fr.env[in] = m.call(fn, args, fr, in.Pos())
	case *ssa.ChangeInterface:
		fr.env[in] = fr.get(in.X)
	case *ssa.ChangeType:
		fr.env[in] = fr.get(in.X)
	case *ssa.Convert:
		fr.env[in] = m.conv(fr, in.Type(), in.X.Type(), fr.get(in.X))
	case *ssa.SliceToArrayPointer:
		m.engineErr("SliceToArrayPointer unsupported")
	case *ssa.MakeInterface:
		fr.env[in] = Iface{T: in.X.Type(), V: fr.get(in.X)}
	case *ssa.Extract:
		fr.env[in] = fr.get(in.Tuple).(Tuple)[in.Index]
	case *ssa.Slice:
		fr.env[in] = m.sliceOp(fr, in)
	case *ssa.Return:
		switch len(in.Results) {
		case 0:
		case 1:
			fr.result = fr.get(in.Results[0])
		default:
			res := make(Tuple, len(in.Results))
			for i, r := range in.Results {
				res[i] = fr.get(r)
			}
			fr.result = res
		}
		fr.block = nil
		return kReturn
	case *ssa.RunDefers:
		fr.runDefers()
		if fr.panicking {
			panic(&goPanic{val: fr.panicVal, pos: fr.panicPos})
		}
	case *ssa.Panic:
		m.markVisible()
		panic(&goPanic{val: fr.get(in.X), pos: fr.curPos})
	case *ssa.Send:
		m.markVisible()
		m.chanSend(fr, fr.get(in.Chan).(*ChanObj), fr.get(in.X))
	case *ssa.Store:
		if !localAddr(in.Addr) {
			m.markVisible()
		}
		p := fr.get(in.Addr).(*Value)
		if p == nil {
			m.runtimePanic(fr, "invalid memory address or nil pointer dereference (store)")
		}
		m.noteWrite(p)
		store(p, fr.get(in.Val))
	case *ssa.If:
		c := fr.get(in.Cond).(T)
		if !c.IsConst() {
			fr.symIters++ // a branch the solver had to decide: counts towards the unwinding bound of the blocks entered next
		}
		succ := 1
		if m.branch(c) {
			succ = 0
		}
		fr.prev, fr.block = fr.block, fr.block.Succs[succ]
		return kJump
	case *ssa.Jump:
		fr.prev, fr.block = fr.block, fr.block.Succs[0]
		return kJump
	case *ssa.Defer:
		fn, args := fr.prepareCall(&in.Call)
		fr.defers = append(fr.defers, deferred{fn: fn, args: args, instr: in})
	case *ssa.Go:
		fn, args := fr.prepareCall(&in.Call)
		m.spawn(fn, args, fr, in.Pos())
	case *ssa.MakeChan:
		n := m.concretize(fr.get(in.Size).(T), true)
		fr.env[in] = m.newChan(int(n))
	case *ssa.Alloc:
		var p *Value
		if in.Heap {
			p = new(Value)
			*p = m.zero(in.Type().(*types.Pointer).Elem())
			fr.env[in] = p
		} else {
			// local: re-zero
			p = fr.env[in].(*Value)
			*p = m.zero(in.Type().(*types.Pointer).Elem())
		}
	case *ssa.MakeSlice:
		ln := m.concretize(fr.get(in.Len).(T), true)
		cp := m.concretize(fr.get(in.Cap).(T), true)
		if ln < 0 {
			m.runtimePanic(fr, "makeslice: len out of range")
		}
		if cp < ln {
			m.runtimePanic(fr, "makeslice: cap out of range")
		}
		if cp > 4096 {
			m.end(StUnwind, "makeslice: capacity %d beyond engine bound", cp)
		}
		et := in.Type().Underlying().(*types.Slice).Elem()
		arr := &ArrObj{Elems: make([]Value, cp), ID: m.newID()}
		for i := range arr.Elems {
			arr.Elems[i] = m.zero(et)
		}
		fr.env[in] = Slice{Arr: arr, Off: 0, Len: int(ln), Cap: int(cp)}
	case *ssa.MakeMap:
		mt := in.Type().Underlying().(*types.Map)
		fr.env[in] = &MapObj{KT: mt.Key(), VT: mt.Elem(), ID: m.newID()}
	case *ssa.Range:
		m.markVisible()
		fr.env[in] = m.rangeIter(fr, fr.get(in.X))
	case *ssa.Next:
		m.markVisible()
		fr.env[in] = m.next(fr, in, fr.get(in.Iter))
	case *ssa.FieldAddr:
		p := fr.get(in.X).(*Value)
		if p == nil {
			m.runtimePanic(fr, "invalid memory address or nil pointer dereference (field %s)", fieldName(in.X.Type(), in.Field))
		}
		s := (*p).(Struct)
		fr.env[in] = &s[in.Field]
	case *ssa.Field:
		fr.env[in] = copyVal(fr.get(in.X).(Struct)[in.Field])
	case *ssa.IndexAddr:
		fr.env[in] = m.indexAddr(fr, in)
	case *ssa.Index:
		fr.env[in] = m.index(fr, in)
	case *ssa.Lookup:
		m.markVisible()
		fr.env[in] = m.lookup(fr, in)
	case *ssa.MapUpdate:
		m.markVisible()
		mo := fr.get(in.Map).(*MapObj)
		if mo == nil {
			m.runtimePanic(fr, "assignment to entry in nil map")
		}
		m.mapStore(fr, mo, fr.get(in.Key), fr.get(in.Value))
	case *ssa.TypeAssert:
		fr.env[in] = m.typeAssert(fr, in, fr.get(in.X).(Iface))
	case *ssa.MakeClosure:
		var bindings []Value
		for _, b := range in.Bindings {
			bindings = append(bindings, fr.get(b))
		}
		fr.env[in] = &Closure{Fn: in.Fn.(*ssa.Function), Env: bindings}
	case *ssa.Phi:
		for i, pred := range in.Block().Preds {
			if fr.prev == pred {
				fr.env[in] = fr.get(in.Edges[i])
				break
			}
		}
	case *ssa.Select:
		m.markVisible()
		fr.env[in] = m.selectOp(fr, in)
	default:
		m.engineErr("unsupported instruction %T: %s", instr, instr)
	}
	return kNext
}

func fieldName(t types.Type, i int) string {
	if p, ok := t.Underlying().(*types.Pointer); ok {
		if s, ok := p.Elem().Underlying().(*types.Struct); ok && i < s.NumFields() {
			return s.Field(i).Name()
		}
	}
	return fmt.Sprint(i)
}

// prepareCall resolves the callee and arguments of a call instruction.
func (fr *frame) prepareCall(call *ssa.CallCommon) (Value, []Value) {
	m := fr.m
	v := fr.get(call.Value)
	var args []Value
	var fn Value
	if call.Method == nil {
		fn = v
	} else {
		recv := v.(Iface)
		if recv.T == nil {
			m.runtimePanic(fr, "invalid memory address or nil pointer dereference (method %s on nil interface)", call.Method.Name())
		}
		if rt, ok := recv.V.(RType); ok {
			// reflect.Type method
			fn = &rtypeMethod{name: call.Method.Name(), t: rt}
			args = nil
			for _, a := range call.Args {
				args = append(args, fr.get(a))
			}
			return fn, args
		}
		f := m.P.lookupMethod(recv.T, call.Method)
		if f == nil {
			m.engineErr("method %s not found on %s", call.Method.Name(), recv.T)
		}
		fn = f
		args = append(args, recv.V)
	}
	for _, a := range call.Args {
		args = append(args, fr.get(a))
	}
	return fn, args
}

func (p *Program) lookupMethod(t types.Type, meth *types.Func) *ssa.Function {
	return p.Prog.LookupMethod(t, meth.Pkg(), meth.Name())
}

// ---- unary / binary / conversion ----

func (m *Machine) unop(fr *frame, in *ssa.UnOp, x Value) Value {
	switch in.Op {
	case token.MUL: // load
		p := x.(*Value)
		if p == nil {
			m.runtimePanic(fr, "invalid memory address or nil pointer dereference (load)")
		}
		m.noteRead(p)
		return load(p)
	case token.ARROW:
		return m.chanRecv(fr, x.(*ChanObj), in.CommaOk, in.X.Type().Underlying().(*types.Chan).Elem())
	case token.NOT:
		return m.C.Not(x.(T))
	case token.SUB:
		t := x.(T)
		if t.S.K == smt.SFP {
			return m.C.FpNeg(t)
		}
		return m.C.BvNeg(t)
	case token.XOR:
		return m.C.BvNot(x.(T))
	}
	m.engineErr("unop %s", in.Op)
	return nil
}

func (m *Machine) strTerm(v Value) T {
	switch s := v.(type) {
	case string:
		return m.C.StrC(s)
	case T:
		return s
	}
	m.engineErr("strTerm of %T", v)
	return nil
}

func (m *Machine) binop(fr *frame, op token.Token, xt types.Type, x, y Value) Value {
	c := m.C
	switch op {
	case token.EQL:
		return m.equals(fr, x, y)
	case token.NEQ:
		return c.Not(m.equals(fr, x, y))
	}
	// strings
	if isString(xt) {
		xs, xok := x.(string)
		ys, yok := y.(string)
		if xok && yok {
			switch op {
			case token.ADD:
				return xs + ys
			case token.LSS:
				return c.BoolC(xs < ys)
			case token.LEQ:
				return c.BoolC(xs <= ys)
			case token.GTR:
				return c.BoolC(xs > ys)
			case token.GEQ:
				return c.BoolC(xs >= ys)
			}
		}
		a, b := m.strTerm(x), m.strTerm(y)
		switch op {
		case token.ADD:
			return c.StrConcat(a, b)
		case token.LSS:
			return c.StrLt(a, b)
		case token.GTR:
			return c.StrLt(b, a)
		case token.LEQ:
			return c.Not(c.StrLt(b, a))
		case token.GEQ:
			return c.Not(c.StrLt(a, b))
		}
		m.engineErr("string binop %s", op)
	}
	a, ok1 := x.(T)
	b, ok2 := y.(T)
	if !ok1 || !ok2 {
		m.engineErr("binop %s on %T,%T", op, x, y)
	}
	if a.S.K == smt.SFP {
		switch op {
		case token.ADD:
			return c.FpBin(smt.OFpAdd, a, b)
		case token.SUB:
			return c.FpBin(smt.OFpSub, a, b)
		case token.MUL:
			return c.FpBin(smt.OFpMul, a, b)
		case token.QUO:
			return c.FpBin(smt.OFpDiv, a, b)
		case token.LSS:
			return c.FpCmp(smt.OFpLt, a, b)
		case token.LEQ:
			return c.FpCmp(smt.OFpLe, a, b)
		case token.GTR:
			return c.FpCmp(smt.OFpLt, b, a)
		case token.GEQ:
			return c.FpCmp(smt.OFpLe, b, a)
		}
		m.engineErr("float binop %s", op)
	}
	if a.S.K == smt.SBool {
		switch op {
		case token.AND, token.LAND:
			return c.And(a, b)
		case token.OR, token.LOR:
			return c.Or(a, b)
		}
		m.engineErr("bool binop %s", op)
	}
	k, _ := basicInfo(xt)
	signed := k.signed
	switch op {
	case token.SHL, token.SHR:
		// shift count may have a different width and is unsigned (or non-negative)
		w := a.S.W
		var cnt T
		if b.S.W > w {
			// saturate: if b >= w result is 0 / sign
			big := c.BvCmp(smt.OBvUle, c.BVC(uint64(w), b.S.W), b)
			cnt = c.Ite(big, c.BVC(uint64(w), w), c.Extract(w-1, 0, b))
		} else {
			cnt = c.Zext(b, w)
		}
		if op == token.SHL {
			return c.BvBin(smt.OBvShl, a, cnt)
		}
		if signed {
			return c.BvBin(smt.OBvAshr, a, cnt)
		}
		return c.BvBin(smt.OBvLshr, a, cnt)
	}
	if a.S != b.S {
		m.engineErr("binop %s width mismatch %v %v", op, a.S, b.S)
	}
	switch op {
	case token.ADD:
		return c.BvBin(smt.OBvAdd, a, b)
	case token.SUB:
		return c.BvBin(smt.OBvSub, a, b)
	case token.MUL:
		return c.BvBin(smt.OBvMul, a, b)
	case token.QUO, token.REM:
		if m.branch(c.Eq(b, c.BVC(0, b.S.W))) {
			m.runtimePanic(fr, "integer divide by zero")
		}
		var o smt.Op
		switch {
		case op == token.QUO && signed:
			o = smt.OBvSDiv
		case op == token.QUO:
			o = smt.OBvUDiv
		case signed:
			o = smt.OBvSRem
		default:
			o = smt.OBvURem
		}
		return c.BvBin(o, a, b)
	case token.AND:
		return c.BvBin(smt.OBvAnd, a, b)
	case token.OR:
		return c.BvBin(smt.OBvOr, a, b)
	case token.XOR:
		return c.BvBin(smt.OBvXor, a, b)
	case token.AND_NOT:
		return c.BvBin(smt.OBvAnd, a, c.BvNot(b))
	case token.LSS:
		if signed {
			return c.BvCmp(smt.OBvSlt, a, b)
		}
		return c.BvCmp(smt.OBvUlt, a, b)
	case token.LEQ:
		if signed {
			return c.BvCmp(smt.OBvSle, a, b)
		}
		return c.BvCmp(smt.OBvUle, a, b)
	case token.GTR:
		if signed {
			return c.BvCmp(smt.OBvSlt, b, a)
		}
		return c.BvCmp(smt.OBvUlt, b, a)
	case token.GEQ:
		if signed {
			return c.BvCmp(smt.OBvSle, b, a)
		}
		return c.BvCmp(smt.OBvUle, b, a)
	}
	m.engineErr("binop %s", op)
	return nil
}

// equals returns a Bool term for Go's == on two values of the same static type.
func (m *Machine) equals(fr *frame, x, y Value) T {
	c := m.C
	switch a := x.(type) {
	case T:
		b, ok := y.(T)
		if !ok {
			if _, isStr := y.(string); isStr {
				return c.Eq(a, m.strTerm(y))
			}
			m.engineErr("equals: %T vs %T", x, y)
		}
		if a.S.K == smt.SFP {
			return c.FpCmp(smt.OFpEq, a, b)
		}
		return c.Eq(a, b)
	case string:
		switch b := y.(type) {
		case string:
			return c.BoolC(a == b)
		case T:
			return c.Eq(c.StrC(a), b)
		}
	case complex128:
		return c.BoolC(a == y.(complex128))
	case *Value:
		return c.BoolC(a == y.(*Value))
	case *MapObj:
		b := y.(*MapObj)
		return c.BoolC(a == b) // only comparisons with nil are legal
	case *ChanObj:
		return c.BoolC(a == y.(*ChanObj))
	case Slice:
		b := y.(Slice)
		if a.Arr != nil && b.Arr != nil {
			m.engineErr("slice == slice")
		}
		return c.BoolC(a.Arr == nil && b.Arr == nil)
	case *Closure, *ssa.Function, *ssa.Builtin:
		return c.BoolC(isNilFunc(x) == isNilFunc(y) && isNilFunc(x))
	case nil:
		return c.BoolC(isNilFunc(y))
	case Struct:
		b := y.(Struct)
		r := c.True()
		for i := range a {
			r = c.And(r, m.equals(fr, a[i], b[i]))
		}
		return r
	case Array:
		b := y.(Array)
		r := c.True()
		for i := range a {
			r = c.And(r, m.equals(fr, a[i], b[i]))
		}
		return r
	case Iface:
		b := y.(Iface)
		if a.T == nil || b.T == nil {
			return c.BoolC(a.T == nil && b.T == nil)
		}
		if !types.Identical(a.T, b.T) {
			return c.False()
		}
		if !types.Comparable(a.T) {
			m.runtimePanic(fr, "comparing uncomparable type %s", a.T)
		}
		return m.equals(fr, a.V, b.V)
	case RType:
		b, ok := y.(RType)
		return c.BoolC(ok && types.Identical(a.T, b.T))
	case RValue:
		m.engineErr("reflect.Value ==")
	}
	m.engineErr("equals: unsupported %T", x)
	return nil
}

func pow2f(n int) float64 {
	r := 1.0
	for i := 0; i < n; i++ {
		r *= 2
	}
	return r
}

func (m *Machine) conv(fr *frame, dst, src types.Type, x Value) Value {
	c := m.C
	dk, dok := basicInfo(dst)
	sk, sok := basicInfo(src)
	if dok && sok {
		t := x.(T)
		switch {
		case !sk.float && !dk.float:
			return c.Resize(t, dk.width, sk.signed)
		case !sk.float && dk.float:
			return c.FpFromInt(t, sk.signed, dk.width)
		case sk.float && dk.float:
			return c.FpToFp(t, dk.width)
		default: // float -> int
			if t.IsConst() {
				f := t.Float()
				if dk.signed {
					if f > -pow2f(dk.width-1)-1 && f < pow2f(dk.width-1) {
						return c.BVC(uint64(int64(f)), dk.width)
					}
				} else if f > -1 && f < pow2f(dk.width) {
					return c.BVC(uint64(f), dk.width)
				}
			}
			x64 := c.FpToFp(t, 64)
			var inr T
			if dk.signed {
				var lo T
				if dk.width == 64 {
					lo = c.FpCmp(smt.OFpLe, c.F64(-pow2f(63)), x64)
				} else {
					lo = c.FpCmp(smt.OFpLt, c.F64(-pow2f(dk.width-1)-1), x64)
				}
				inr = c.And(lo, c.FpCmp(smt.OFpLt, x64, c.F64(pow2f(dk.width-1))))
			} else {
				inr = c.And(c.FpCmp(smt.OFpLt, c.F64(-1), x64), c.FpCmp(smt.OFpLt, x64, c.F64(pow2f(dk.width))))
			}
			raw := c.FpToIntRaw(x64, dk.signed, dk.width)
			if inr.IsTrue() {
				return raw
			}
			// out of range / NaN: implementation-defined in Go -> unconstrained
			fresh := c.Fresh("f2i_unspec", smt.BV(dk.width))
			return c.Ite(inr, raw, fresh)
		}
	}
	// string conversions
	if isString(dst) {
		if sok && !sk.float { // integer -> string(rune)
			v := m.concretize(x.(T), sk.signed)
			return string(rune(v))
		}
		if sl, ok := x.(Slice); ok { // []byte / []rune -> string
			et := src.Underlying().(*types.Slice).Elem()
			ek, _ := basicInfo(et)
			var sb strings.Builder
			for i := 0; i < sl.Len; i++ {
				v := m.concretize(sl.Arr.Elems[sl.Off+i].(T), false)
				if ek.width == 8 {
					sb.WriteByte(byte(v))
				} else {
					sb.WriteRune(rune(v))
				}
			}
			return sb.String()
		}
		if isString(src) {
			return x
		}
	}
	if ds, ok := dst.Underlying().(*types.Slice); ok && isString(src) {
		s, ok := x.(string)
		if !ok {
			if s, ok = m.degradeNumeral(x); !ok {
				m.engineErr("conversion of symbolic string to slice")
			}
		}
		ek, _ := basicInfo(ds.Elem())
		arr := &ArrObj{ID: m.newID()}
		if ek.width == 8 {
			for i := 0; i < len(s); i++ {
				arr.Elems = append(arr.Elems, c.BVC(uint64(s[i]), 8))
			}
		} else {
			for _, r := range s {
				arr.Elems = append(arr.Elems, c.BVC(uint64(r), 32))
			}
		}
		return Slice{Arr: arr, Len: len(arr.Elems), Cap: len(arr.Elems)}
	}
	// pointer <-> unsafe.Pointer and other no-ops
	switch x.(type) {
	case *Value:
		return x
	}
	if types.Identical(dst.Underlying(), src.Underlying()) {
		return x
	}
	m.engineErr("conv %s -> %s unsupported", src, dst)
	return nil
}

// ---- slices, arrays, indexing ----

func (m *Machine) sliceOp(fr *frame, in *ssa.Slice) Value {
	x := fr.get(in.X)
	var lo, hi, max int64 = 0, -1, -1
	if in.Low != nil {
		lo = m.concretize(fr.get(in.Low).(T), true)
	}
	if in.High != nil {
		hi = m.concretize(fr.get(in.High).(T), true)
	}
	if in.Max != nil {
		max = m.concretize(fr.get(in.Max).(T), true)
	}
	switch v := x.(type) {
	case string:
		if hi < 0 && in.High == nil {
			hi = int64(len(v))
		}
		if lo < 0 || hi < lo || hi > int64(len(v)) {
			m.runtimePanic(fr, "slice bounds out of range [%d:%d] with length %d", lo, hi, len(v))
		}
		return v[lo:hi]
	case Slice:
		if in.High == nil {
			hi = int64(v.Len)
		}
		if in.Max == nil {
			max = int64(v.Cap)
		}
		if lo < 0 || hi < lo || max < hi || max > int64(v.Cap) {
			m.runtimePanic(fr, "slice bounds out of range [%d:%d:%d] with capacity %d", lo, hi, max, v.Cap)
		}
		if v.Arr == nil {
			return Slice{}
		}
		return Slice{Arr: v.Arr, Off: v.Off + int(lo), Len: int(hi - lo), Cap: int(max - lo)}
	case *Value: // pointer to array
		if v == nil {
			m.runtimePanic(fr, "slice of nil array pointer")
		}
		a := (*v).(Array)
		if in.High == nil {
			hi = int64(len(a))
		}
		if in.Max == nil {
			max = int64(len(a))
		}
		if lo < 0 || hi < lo || max < hi || max > int64(len(a)) {
			m.runtimePanic(fr, "slice bounds out of range [%d:%d:%d] with array length %d", lo, hi, max, len(a))
		}
		ao := m.arrObjs[v]
		if ao == nil {
			ao = &ArrObj{Elems: []Value(a), ID: m.newID()}
			m.arrObjs[v] = ao
		}
		return Slice{Arr: ao, Off: int(lo), Len: int(hi - lo), Cap: int(max - lo)}
	case T:
		if d, ok := m.degradeNumeral(v); ok {
			if hi < 0 && in.High == nil {
				hi = int64(len(d))
			}
			if lo < 0 || hi < lo || hi > int64(len(d)) {
				m.runtimePanic(fr, "slice bounds out of range [%d:%d] with length %d", lo, hi, len(d))
			}
			return d[lo:hi]
		}
		m.engineErr("slicing a symbolic string")
	}
	m.engineErr("slice of %T", x)
	return nil
}

// idx resolves a (possibly symbolic) index against length n, forking over in-range values; panics (Go) when out of range.
func (m *Machine) idx(fr *frame, it T, n int, signed bool) int {
	if it.IsConst() {
		v := it.Int64()
		if !signed {
			v = int64(it.Val)
		}
		if v < 0 || v >= int64(n) {
			m.runtimePanic(fr, "index out of range [%d] with length %d", v, n)
		}
		return int(v)
	}
	c := m.C
	w := it.S.W
	// a large table indexed by a symbolic value (a lookup table of 256 precomputed entries, say): case-splitting over
	// every entry costs n paths and n feasibility queries each time. Beyond 64 entries only representative positions
	// (both ends, the middle) and the out-of-range case are followed, and the run says so (NOTE reduced coverage).
	var reps map[int]bool
	if n > 64 {
		reps = map[int]bool{}
		for _, r := range []int{0, 1, 2, 3, n/2 - 1, n / 2, n/2 + 1, n - 4, n - 3, n - 2, n - 1} {
			reps[r] = true
		}
		m.Res.Degraded[fmt.Sprintf("symbolic index into a table of more than 64 entries: representative positions only")]++
	}
	k := m.choose("idx", n+1, func(i int) bool {
		if i < n {
			if reps != nil && !reps[i] {
				return false
			}
			return m.feasible(c.Eq(it, c.BVC(uint64(i), w)))
		}
		var inr T
		if signed {
			inr = c.And(c.BvCmp(smt.OBvSle, c.BVC(0, w), it), c.BvCmp(smt.OBvSlt, it, c.BVC(uint64(n), w)))
		} else {
			inr = c.BvCmp(smt.OBvUlt, it, c.BVC(uint64(n), w))
		}
		return m.feasible(c.Not(inr))
	})
	if k < n {
		m.addPC(c.Eq(it, c.BVC(uint64(k), w)))
		return k
	}
	var inr T
	if signed {
		inr = c.And(c.BvCmp(smt.OBvSle, c.BVC(0, w), it), c.BvCmp(smt.OBvSlt, it, c.BVC(uint64(n), w)))
	} else {
		inr = c.BvCmp(smt.OBvUlt, it, c.BVC(uint64(n), w))
	}
	m.addPC(c.Not(inr))
	m.runtimePanic(fr, "index out of range [symbolic] with length %d", n)
	return 0
}

func (m *Machine) indexAddr(fr *frame, in *ssa.IndexAddr) Value {
	x := fr.get(in.X)
	it := fr.get(in.Index).(T)
	ik, _ := basicInfo(in.Index.Type())
	switch v := x.(type) {
	case Slice:
		i := m.idx(fr, it, v.Len, ik.signed)
		return &v.Arr.Elems[v.Off+i]
	case *Value: // *array
		if v == nil {
			m.runtimePanic(fr, "nil pointer dereference (index of nil array pointer)")
		}
		a := (*v).(Array)
		i := m.idx(fr, it, len(a), ik.signed)
		return &a[i]
	}
	m.engineErr("indexAddr of %T", x)
	return nil
}

func (m *Machine) index(fr *frame, in *ssa.Index) Value {
	x := fr.get(in.X)
	it := fr.get(in.Index).(T)
	ik, _ := basicInfo(in.Index.Type())
	switch v := x.(type) {
	case Array:
		i := m.idx(fr, it, len(v), ik.signed)
		return copyVal(v[i])
	case string:
		i := m.idx(fr, it, len(v), ik.signed)
		return m.C.BVC(uint64(v[i]), 8)
	case T:
		if d, ok := m.degradeNumeral(v); ok {
			i := m.idx(fr, it, len(d), ik.signed)
			return m.C.BVC(uint64(d[i]), 8)
		}
	}
	m.engineErr("index of %T", x)
	return nil
}

// ---- maps ----

// keyEq decides equality of a lookup key against an entry key, forking when symbolic.
func (m *Machine) keyEq(fr *frame, a, b Value) bool {
	return m.branch(m.equals(fr, a, b))
}

func (m *Machine) checkHashable(fr *frame, k Value) {
	if i, ok := k.(Iface); ok && i.T != nil && !types.Comparable(i.T) {
		m.runtimePanic(fr, "hash of unhashable type %s", i.T)
	}
}

func (m *Machine) mapFind(fr *frame, mo *MapObj, k Value) *MapEntry {
	if mo == nil {
		return nil
	}
	m.checkHashable(fr, k)
	for _, e := range mo.Entries {
		if m.keyEq(fr, e.K, k) {
			return e
		}
	}
	return nil
}

func (m *Machine) mapStore(fr *frame, mo *MapObj, k, v Value) {
	if e := m.mapFind(fr, mo, k); e != nil {
		e.V = copyVal(v)
		return
	}
	mo.Entries = append(mo.Entries, &MapEntry{K: copyVal(k), V: copyVal(v)})
}

func (m *Machine) mapDelete(fr *frame, mo *MapObj, k Value) {
	if mo == nil {
		return
	}
	m.checkHashable(fr, k)
	for i, e := range mo.Entries {
		if m.keyEq(fr, e.K, k) {
			e.Deleted = true
			mo.Entries = append(append([]*MapEntry(nil), mo.Entries[:i]...), mo.Entries[i+1:]...)
			return
		}
	}
}

func (m *Machine) lookup(fr *frame, in *ssa.Lookup) Value {
	x := fr.get(in.X)
	switch v := x.(type) {
	case *MapObj:
		k := fr.get(in.Index)
		var val Value
		ok := false
		if e := m.mapFind(fr, v, k); e != nil {
			val, ok = copyVal(e.V), true
		} else {
			val = m.zero(in.X.Type().Underlying().(*types.Map).Elem())
		}
		if in.CommaOk {
			return Tuple{val, m.C.BoolC(ok)}
		}
		return val
	case string:
		ik, _ := basicInfo(in.Index.Type())
		i := m.idx(fr, fr.get(in.Index).(T), len(v), ik.signed)
		return m.C.BVC(uint64(v[i]), 8)
	}
	m.engineErr("lookup in %T", x)
	return nil
}

func (m *Machine) rangeIter(fr *frame, x Value) Value {
	switch v := x.(type) {
	case *MapObj:
		it := &mapIter{m: v}
		if v == nil {
			return it
		}
		n := len(v.Entries)
		rem := append([]*MapEntry(nil), v.Entries...)
		switch {
		case n <= 1 || m.mapOrder == 2:
			it.order = rem
		case m.mapOrder == 3:
			// one decision per path: every range runs forward, or every range runs in reverse
			if m.mapFlip == 0 {
				m.mapFlip = 1 + m.choose("maporder", 2, nil)
			}
			if m.mapFlip == 2 {
				for i := n - 1; i >= 0; i-- {
					it.order = append(it.order, rem[i])
				}
			} else {
				it.order = rem
			}
		case m.mapOrder == 1:
			if m.choose("maporder", 2, nil) == 1 {
				for i := n - 1; i >= 0; i-- {
					it.order = append(it.order, rem[i])
				}
			} else {
				it.order = rem
			}
		default:
			for len(rem) > 0 {
				k := m.choose("maporder", len(rem), nil)
				it.order = append(it.order, rem[k])
				rem = append(rem[:k:k], rem[k+1:]...)
			}
		}
		return it
	case string:
		return &strIter{s: v}
	}
	m.engineErr("range over %T", x)
	return nil
}

func (m *Machine) next(fr *frame, in *ssa.Next, iter Value) Value {
	switch it := iter.(type) {
	case *mapIter:
		for it.i < len(it.order) {
			e := it.order[it.i]
			it.i++
			if e.Deleted {
				continue
			}
			return Tuple{m.C.True(), copyVal(e.K), copyVal(e.V)}
		}
		return Tuple{m.C.False(), nil, nil}
	case *strIter:
		if it.i >= len(it.s) {
			return Tuple{m.C.False(), m.C.BVC(0, 64), m.C.BVC(0, 32)}
		}
		i := it.i
		var r rune
		var sz int
		for j, rr := range it.s[i:] {
			_ = j
			r = rr
			sz = len(string(rr))
			break
		}
		it.i += sz
		return Tuple{m.C.True(), m.C.BVC(uint64(i), 64), m.C.BVC(uint64(r), 32)}
	}
	m.engineErr("next on %T", iter)
	return nil
}

// ---- type assertions ----

func (m *Machine) implements(t types.Type, it *types.Interface) bool {
	return types.Implements(t, it)
}

func (m *Machine) typeAssert(fr *frame, in *ssa.TypeAssert, x Iface) Value {
	ok := false
	var v Value
	if x.T != nil {
		if it, isI := in.AssertedType.Underlying().(*types.Interface); isI {
			if _, isRT := x.V.(RType); isRT {
				ok = true
			} else {
				ok = m.implements(x.T, it)
			}
			v = x
		} else {
			ok = types.Identical(x.T, in.AssertedType)
			v = x.V
		}
	}
	if in.CommaOk {
		if !ok {
			return Tuple{m.zero(in.AssertedType), m.C.False()}
		}
		return Tuple{copyVal(v), m.C.True()}
	}
	if !ok {
		if x.T == nil {
			m.runtimePanic(fr, "interface conversion: interface is nil, not %s", in.AssertedType)
		}
		m.runtimePanic(fr, "interface conversion: interface {} is %s, not %s", x.T, in.AssertedType)
	}
	return copyVal(v)
}

// isHarness: frames of harness / reference code (overlay files zz_*) are not subject to the unwinding bound of the
// code under test (their loops are bounded by construction; the global step limit still applies).
func (fr *frame) isHarness() bool {
	if fr.harness == 0 {
		fr.harness = 2
		f := fr.fn
		for f.Parent() != nil {
			f = f.Parent()
		}
		if pos := f.Pos(); pos.IsValid() {
			name := fr.m.P.Fset.Position(pos).Filename
			if i := strings.LastIndex(name, "/"); i >= 0 {
				name = name[i+1:]
			}
			if strings.HasPrefix(name, "zz_") {
				fr.harness = 1
			}
		}
	}
	return fr.harness == 1
}

// ---- partial-order reduction support (see sched.go yield) ----

// localAddr: the address is statically rooted in a non-escaping local variable of the current frame, so a load or
// store through it cannot be observed by another goroutine.
func localAddr(v ssa.Value) bool {
	for {
		switch a := v.(type) {
		case *ssa.Alloc:
			return !a.Heap
		case *ssa.FieldAddr:
			v = a.X
		case *ssa.IndexAddr:
			if _, ok := a.X.Type().Underlying().(*types.Pointer); !ok {
				return false // element of a slice: the backing array may be shared
			}
			v = a.X
		default:
			return false
		}
	}
}

// pureIntrinsic: intercepted functions that neither read nor write anything another goroutine could touch (their
// arguments are registers). Every other intercepted function (sync, atomic, time, reflect, fmt, vfEq, vfSnapshot, ...)
// counts as a visible action.
var pureIntrinsic = map[string]bool{
	"vfPoint": true, "vfEnter": true, "vfExit": true,
	"vfInt": true, "vfInt8": true, "vfInt16": true, "vfInt32": true, "vfInt64": true, "vfUint": true, "vfUint8": true,
	"vfUint16": true, "vfUint32": true, "vfUint64": true, "vfUintptr": true, "vfBool": true, "vfFloat32": true, "vfFloat64": true,
	"vfChoose": true, "vfRange": true, "vfProbe": true, "vfProbeDuration": true, "vfCtxDone": true, "vfAssume": true, "vfAssert": true, "vfFn": true, "vfPred": true, "vfAnd": true, "vfOr": true,
	"vfImplies": true, "vfIte": true, "vfIteBool": true, "vfReach": true, "vfTier": true, "vfNumStr": true, "vfConcrete": true,
	"vfGoroutineID": true, "vfLog": true,
}
