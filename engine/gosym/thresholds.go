package gosym

import (
	"fmt"
	"go/constant"
	"go/token"
	"go/types"
	"os"
	"path/filepath"
	"sort"
	"strings"
	"sync"

	"golang.org/x/tools/go/ssa"
)

// Size thresholds derived from the code under test ("derive bounds from the code"): the integer constants (4..300) that
// the functions named by a filter - and the repository functions they call - compare something with, or use as a channel
// capacity. vfProbe offers, next to the harness's own small sizes, sizes just beyond each such constant, so that a
// fast path / cap / batch limit in the CURRENT source is straddled without the harness knowing the number.

// probeMaxConstant: larger size constants are not probed (an at-scale harness at 1025 elements runs into the step limit)
const probeMaxConstant = 300

var thresholdCache sync.Map // *ssa.Function -> []int64 (direct size constants)
var durationCache sync.Map  // *ssa.Function -> []int64 (direct time.Duration constants, ns)

// directDurations: the time.Duration constants (1 ms .. 10 s) a function mentions anywhere (a hidden timeout, a retry
// interval, a grace period)
func directDurations(fn *ssa.Function) []int64 {
	if v, ok := durationCache.Load(fn); ok {
		return v.([]int64)
	}
	var out []int64
	var ops []*ssa.Value
	for _, b := range fn.Blocks {
		for _, in := range b.Instrs {
			ops = in.Operands(ops[:0])
			for _, o := range ops {
				if o == nil || *o == nil {
					continue
				}
				c, ok := (*o).(*ssa.Const)
				if !ok || c.Value == nil || c.Value.Kind() != constant.Int {
					continue
				}
				if nt, ok := c.Type().(*types.Named); !ok || nt.Obj().Pkg() == nil || nt.Obj().Pkg().Path() != "time" || nt.Obj().Name() != "Duration" {
					continue
				}
				if n, exact := constant.Int64Val(c.Value); exact && n >= 1_000_000 && n <= 10_000_000_000 {
					out = append(out, n)
				}
			}
		}
	}
	durationCache.Store(fn, out)
	return out
}

func (p *Program) repoSourceFuncs() []*ssa.Function {
	var out []*ssa.Function
	seen := map[*ssa.Function]bool{}
	var add func(fn *ssa.Function)
	add = func(fn *ssa.Function) {
		if fn == nil || seen[fn] {
			return
		}
		seen[fn] = true
		if fn.Pos().IsValid() && strings.HasPrefix(filepath.Base(p.Fset.Position(fn.Pos()).Filename), "zz_") {
			return // harness overlay
		}
		out = append(out, fn)
		for _, a := range fn.AnonFuncs {
			add(a)
		}
	}
	for pkg := range p.repoPkgs {
		for _, mem := range pkg.Members {
			switch m := mem.(type) {
			case *ssa.Function:
				add(m)
			case *ssa.Type:
				// declared methods (value and pointer receivers; for a generic type: the uninstantiated bodies)
				if named, ok := m.Type().(*types.Named); ok {
					for i := 0; i < named.NumMethods(); i++ {
						add(p.Prog.FuncValue(named.Method(i)))
					}
				}
			}
		}
	}
	return out
}

func directThresholds(fn *ssa.Function) []int64 {
	if v, ok := thresholdCache.Load(fn); ok {
		return v.([]int64)
	}
	var out []int64
	take := func(v ssa.Value) {
		c, ok := v.(*ssa.Const)
		if !ok || c.Value == nil || c.Value.Kind() != constant.Int {
			return
		}
		if n, exact := constant.Int64Val(c.Value); exact && n >= 4 && n <= probeMaxConstant {
			out = append(out, n)
		}
	}
	for _, b := range fn.Blocks {
		for _, in := range b.Instrs {
			switch x := in.(type) {
			case *ssa.BinOp:
				switch x.Op {
				case token.LSS, token.LEQ, token.GTR, token.GEQ, token.EQL, token.NEQ:
					take(x.X)
					take(x.Y)
				}
			case *ssa.MakeChan:
				take(x.Size)
			}
		}
	}
	thresholdCache.Store(fn, out)
	return out
}

// codeThresholds: sorted distinct constants of the repository functions whose name contains one of the |-separated
// filters, closed under static calls into the repository.
func (p *Program) codeThresholds(filter string) []int64 {
	return p.codeConstants(filter, directThresholds)
}

// codeDurations: the same closure for time.Duration constants.
func (p *Program) codeDurations(filter string) []int64 {
	return p.codeConstants(filter, directDurations)
}

func (p *Program) codeConstants(filter string, direct func(*ssa.Function) []int64) []int64 {
	alts := strings.Split(filter, "|")
	match := func(fn *ssa.Function) bool {
		name := fn.String()
		if o := fn.Origin(); o != nil {
			name = o.String()
		}
		for _, a := range alts {
			if a != "" && strings.Contains(name, a) {
				return true
			}
		}
		return false
	}
	seen := map[*ssa.Function]bool{}
	set := map[int64]bool{}
	var visit func(fn *ssa.Function, depth int)
	visit = func(fn *ssa.Function, depth int) {
		if fn == nil || seen[fn] || depth > 6 {
			return
		}
		seen[fn] = true
		src := fn
		if o := fn.Origin(); o != nil && len(fn.Blocks) == 0 {
			src = o
		}
		for _, c := range direct(src) {
			set[c] = true
		}
		for _, a := range src.AnonFuncs {
			visit(a, depth+1)
		}
		for _, b := range src.Blocks {
			for _, in := range b.Instrs {
				if call, ok := in.(ssa.CallInstruction); ok {
					if callee := call.Common().StaticCallee(); callee != nil {
						cp := callee.Pkg
						if cp == nil && callee.Origin() != nil {
							cp = callee.Origin().Pkg
						}
						if cp != nil && p.repoPkgs[cp] {
							visit(callee, depth+1)
						}
					}
				}
			}
		}
	}
	for _, fn := range p.repoSourceFuncs() {
		if match(fn) {
			visit(fn, 0)
		}
	}
	if os.Getenv("VF_DEBUG_THRESHOLDS") != "" {
		fmt.Fprintf(os.Stderr, "thresholds(%s): %d functions visited, constants %v\n", filter, len(seen), set)
	}
	var out []int64
	for c := range set {
		out = append(out, c)
	}
	sort.Slice(out, func(i, j int) bool { return out[i] < out[j] })
	return out
}
