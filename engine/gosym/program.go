package gosym

import (
	"fmt"
	"go/types"
	"os"
	"path/filepath"
	"regexp"
	"sort"
	"strings"

	"golang.org/x/tools/go/packages"
	"golang.org/x/tools/go/ssa"
	"golang.org/x/tools/go/ssa/ssautil"
)

type LoadConfig struct {
	RepoDir    string            // /repo
	PkgDir     string            // "" (root package), "worker", "network"
	Overlay    map[string]string // virtual file name (relative to the package dir) -> real file to read
	OverlaySrc map[string][]byte // virtual file name -> content (takes precedence)
	Instrument bool              // rewrite repo + harness sources with scheduling points (see instr.go)
	VfDecls    []byte            // vf_engine.go template (package PKG), added to dependency packages when instrumenting
	Tests      bool              // load the package together with its _test.go files (translator validation)
}

// Load type-checks the target package of /repo's current working tree with the harness overlay and builds SSA.
func Load(cfg LoadConfig) (*Program, error) {
	dir := filepath.Join(cfg.RepoDir, cfg.PkgDir)
	overlay := map[string][]byte{}
	for name, real := range cfg.Overlay {
		b, err := os.ReadFile(real)
		if err != nil {
			return nil, err
		}
		overlay[filepath.Join(dir, name)] = b
	}
	for name, b := range cfg.OverlaySrc {
		overlay[filepath.Join(dir, name)] = b
	}
	points := map[int]string{}
	if cfg.Instrument {
		n := 0
		// harness files (not the vf vocabulary itself)
		for path, b := range overlay {
			if strings.Contains(filepath.Base(path), "zz_vf_") {
				continue
			}
			nb, err := Instrument(path, b, &n, points)
			if err != nil {
				return nil, err
			}
			overlay[path] = nb
		}
		dirs := []string{dir}
		if cfg.PkgDir != "" {
			dirs = append(dirs, cfg.RepoDir) // worker/ and network/ import the root package
		}
		for _, d := range dirs {
			files, _ := filepath.Glob(filepath.Join(d, "*.go"))
			for _, f := range files {
				if strings.HasSuffix(f, "_test.go") {
					continue
				}
				b, err := os.ReadFile(f)
				if err != nil {
					return nil, err
				}
				nb, err := Instrument(f, b, &n, points)
				if err != nil {
					return nil, err
				}
				overlay[f] = nb
			}
			if d != dir && cfg.VfDecls != nil {
				pn, err := dirPackageName(d)
				if err != nil {
					return nil, err
				}
				overlay[filepath.Join(d, "zz_vf_engine.go")] = []byte(strings.Replace(string(cfg.VfDecls), "package PKG", "package "+pn, 1))
			}
		}
	}
	pc := &packages.Config{
		Mode: packages.NeedName | packages.NeedFiles | packages.NeedCompiledGoFiles | packages.NeedImports |
			packages.NeedDeps | packages.NeedTypes | packages.NeedSyntax | packages.NeedTypesInfo | packages.NeedTypesSizes | packages.NeedModule,
		Dir:     dir,
		Tests:   cfg.Tests,
		Overlay: overlay,
		Env:     append(os.Environ(), "GOFLAGS=-mod=mod", "GOPROXY=off", "GOSUMDB=off", "GOTOOLCHAIN=local", "CGO_ENABLED=0"),
	}
	initial, err := packages.Load(pc, ".")
	if err != nil {
		return nil, err
	}
	var errs []string
	packages.Visit(initial, nil, func(p *packages.Package) {
		for _, e := range p.Errors {
			errs = append(errs, fmt.Sprintf("%s: %s", e.Pos, e.Msg))
		}
	})
	if len(errs) > 0 {
		return nil, fmt.Errorf("load errors:\n%s", strings.Join(errs, "\n"))
	}
	if cfg.Tests {
		// keep the test variant "pkg [pkg.test]" (it contains the package's own files plus its _test.go files)
		var sel []*packages.Package
		for _, ip := range initial {
			if strings.Contains(ip.ID, " [") && !strings.HasSuffix(ip.PkgPath, ".test") && !strings.HasSuffix(ip.PkgPath, "_test") {
				sel = append(sel, ip)
			}
		}
		if len(sel) > 0 {
			initial = sel[:1]
		}
	}
	prog, pkgs := ssautil.AllPackages(initial, ssa.InstantiateGenerics|ssa.BareInits)
	prog.Build()
	p := &Program{Prog: prog, Fset: initial[0].Fset, Pkgs: map[string]*ssa.Package{}, Main: pkgs[0], Instrumented: cfg.Instrument, Points: points, repoPkgs: map[*ssa.Package]bool{}}
	for _, sp := range prog.AllPackages() {
		p.Pkgs[sp.Pkg.Path()] = sp
	}
	// packages of the repository itself get their (bare) init run on every path
	modPath := ""
	if initial[0].Module != nil {
		modPath = initial[0].Module.Path
	}
	var inits []*ssa.Package
	seen := map[*ssa.Package]bool{}
	var visit func(sp *ssa.Package)
	visit = func(sp *ssa.Package) {
		if seen[sp] {
			return
		}
		seen[sp] = true
		for _, imp := range sp.Pkg.Imports() {
			if modPath != "" && strings.HasPrefix(imp.Path(), modPath) {
				if isp := p.Pkgs[imp.Path()]; isp != nil {
					visit(isp)
				}
			}
		}
		inits = append(inits, sp)
		p.repoPkgs[sp] = true
	}
	visit(p.Main)
	// a few standard-library packages whose package-level variables the models rely on (io.EOF, ...)
	for _, name := range []string{"io"} {
		if sp := p.Pkgs[name]; sp != nil {
			inits = append([]*ssa.Package{sp}, inits...)
		}
	}
	p.InitPkgs = inits
	ep := p.Pkgs["errors"]
	if ep == nil {
		return nil, fmt.Errorf("package errors not loaded")
	}
	p.errorStringPtr = types.NewPointer(ep.Type("errorString").Type())
	if rp := p.Pkgs["reflect"]; rp != nil {
		p.rtypePtr = types.NewPointer(rp.Type("rtype").Type())
	} else {
		p.rtypePtr = p.errorStringPtr
	}
	return p, nil
}

func (p *Program) isHarnessPkg(sp *ssa.Package) bool { return sp == p.Main || p.repoPkgs[sp] }

var pkgClauseRe = regexp.MustCompile(`(?m)^package\s+(\w+)`)

func dirPackageName(dir string) (string, error) {
	files, _ := filepath.Glob(filepath.Join(dir, "*.go"))
	for _, f := range files {
		if strings.HasSuffix(f, "_test.go") {
			continue
		}
		b, err := os.ReadFile(f)
		if err != nil {
			continue
		}
		if m := pkgClauseRe.FindSubmatch(b); m != nil {
			return string(m[1]), nil
		}
	}
	return "", fmt.Errorf("no package clause in %s", dir)
}

// Harnesses lists the entry points `vh_<prefix>…` of the main package, sorted.
func (p *Program) Harnesses(prefix string) []*ssa.Function {
	var fs []*ssa.Function
	for name, mem := range p.Main.Members {
		if f, ok := mem.(*ssa.Function); ok && strings.HasPrefix(name, prefix) && f.Signature.Params().Len() == 0 {
			fs = append(fs, f)
		}
	}
	sort.Slice(fs, func(i, j int) bool { return fs[i].Name() < fs[j].Name() })
	return fs
}

// TestFuncs lists the Test* functions of the main package (loaded with Tests: true), sorted.
func (p *Program) TestFuncs() []*ssa.Function {
	var fs []*ssa.Function
	for name, mem := range p.Main.Members {
		if f, ok := mem.(*ssa.Function); ok && strings.HasPrefix(name, "Test") && f.Signature.Params().Len() == 1 {
			fs = append(fs, f)
		}
	}
	sort.Slice(fs, func(i, j int) bool { return fs[i].Name() < fs[j].Name() })
	return fs
}
