package gosym

import (
	"bytes"
	"fmt"
	"go/ast"
	"go/parser"
	"go/printer"
	"go/token"
	"strings"
)

// Instrument rewrites a Go source file so that goroutine scheduling becomes controllable at statement granularity:
//
//   - `vfPoint(N)` is inserted before every statement of every function body (a scheduling point for the
//     symbolic engine; the place where the native replay controller parks goroutines);
//   - `go f(a, b)` becomes { g := vfSpawn(); f_, a_, b_ := f, a, b; go func() { vfEnter(g); defer vfExit(g); f_(a_, b_) }() }
//     (callee and arguments are still evaluated by the spawning goroutine, as the go statement prescribes).
//
// The rewriting is done in memory on every run from the current working tree (an overlay; /repo is not modified).
func Instrument(filename string, src []byte, nextID *int, points map[int]string) ([]byte, error) {
	fset := token.NewFileSet()
	f, err := parser.ParseFile(fset, filename, src, parser.ParseComments)
	if err != nil {
		return nil, err
	}
	base := filename
	if i := strings.LastIndex(base, "/"); i >= 0 {
		base = base[i+1:]
	}
	in := &instrumenter{fset: fset, nextID: nextID, points: points, base: base}
	for _, d := range f.Decls {
		if fd, ok := d.(*ast.FuncDecl); ok && fd.Body != nil {
			if strings.HasPrefix(fd.Name.Name, "vf") {
				continue
			}
			in.block(fd.Body)
		}
		// function literals in package-level var initialisers
		if gd, ok := d.(*ast.GenDecl); ok {
			ast.Inspect(gd, func(n ast.Node) bool {
				if fl, ok := n.(*ast.FuncLit); ok {
					in.block(fl.Body)
					return false
				}
				return true
			})
		}
	}
	// time.Sleep(d) -> vfSleep(d): virtual time in the engine, an announced blocking point for the native controller
	usesTime := false
	ast.Inspect(f, func(n ast.Node) bool {
		if ce, ok := n.(*ast.CallExpr); ok {
			if se, ok := ce.Fun.(*ast.SelectorExpr); ok {
				if id, ok := se.X.(*ast.Ident); ok && id.Name == "time" && se.Sel.Name == "Sleep" {
					ce.Fun = ast.NewIdent("vfSleep")
				}
			}
		}
		return true
	})
	ast.Inspect(f, func(n ast.Node) bool {
		if se, ok := n.(*ast.SelectorExpr); ok {
			if id, ok := se.X.(*ast.Ident); ok && id.Name == "time" {
				usesTime = true
			}
		}
		return true
	})
	if !usesTime {
		// keep the import used
		for _, imp := range f.Imports {
			if imp.Path.Value == `"time"` && imp.Name == nil {
				imp.Name = ast.NewIdent("_")
			}
		}
	}
	var buf bytes.Buffer
	// comments are dropped on purpose: inserted nodes have no positions and the printer would misplace them
	f.Comments = nil
	stripDocs(f)
	if err := printer.Fprint(&buf, fset, f); err != nil {
		return nil, err
	}
	out := buf.Bytes()
	// keep build constraints out of the way (none in the repo) and the package clause intact
	return out, nil
}

func stripDocs(f *ast.File) {
	f.Doc = nil
	ast.Inspect(f, func(n ast.Node) bool {
		switch x := n.(type) {
		case *ast.FuncDecl:
			x.Doc = nil
		case *ast.GenDecl:
			x.Doc = nil
		case *ast.TypeSpec:
			x.Doc, x.Comment = nil, nil
		case *ast.ValueSpec:
			x.Doc, x.Comment = nil, nil
		case *ast.Field:
			x.Doc, x.Comment = nil, nil
		case *ast.ImportSpec:
			x.Doc, x.Comment = nil, nil
		}
		return true
	})
}

type instrumenter struct {
	fset   *token.FileSet
	nextID *int
	points map[int]string
	base   string
	tmp    int
}

func (in *instrumenter) point(pos token.Pos) ast.Stmt {
	*in.nextID++
	id := *in.nextID
	if in.points != nil {
		in.points[id] = fmt.Sprintf("%s:%d", in.base, in.fset.Position(pos).Line)
	}
	return &ast.ExprStmt{X: &ast.CallExpr{Fun: ast.NewIdent("vfPoint"), Args: []ast.Expr{&ast.BasicLit{Kind: token.INT, Value: fmt.Sprint(id)}}}}
}

func (in *instrumenter) block(b *ast.BlockStmt) {
	if b == nil {
		return
	}
	b.List = in.list(b.List)
}

func (in *instrumenter) list(stmts []ast.Stmt) []ast.Stmt {
	var out []ast.Stmt
	for _, s := range stmts {
		out = append(out, in.point(s.Pos()))
		if h := in.hoistCall(s); h != nil {
			in.exprs(h)
			out = append(out, h)
			continue
		}
		out = append(out, in.stmt(s))
	}
	return out
}

// hoistCall: `x[i] = f(...)` becomes `{ t := f(...); x[i] = t }`. The language leaves open whether the variables in
// the index expression are read before or after the call; go/ssa reads them before, the compiler used for the native
// replay after. Normalising the source to the compiler's order makes the symbolic run and the replay agree (and loses
// nothing: the statement is still one scheduling step). Only when the left side itself contains no call or receive.
func (in *instrumenter) hoistCall(s ast.Stmt) ast.Stmt {
	as, ok := s.(*ast.AssignStmt)
	if !ok || as.Tok != token.ASSIGN || len(as.Lhs) != 1 || len(as.Rhs) != 1 {
		return nil
	}
	ix, ok := as.Lhs[0].(*ast.IndexExpr)
	if !ok {
		return nil
	}
	readsVar, impure := false, false
	ast.Inspect(ix, func(n ast.Node) bool {
		switch x := n.(type) {
		case *ast.CallExpr, *ast.FuncLit:
			impure = true
		case *ast.UnaryExpr:
			if x.Op == token.ARROW {
				impure = true
			}
		case *ast.Ident:
			readsVar = true
		}
		return true
	})
	hasCall := false
	ast.Inspect(as.Rhs[0], func(n ast.Node) bool {
		if _, ok := n.(*ast.CallExpr); ok {
			hasCall = true
		}
		return true
	})
	if impure || !readsVar || !hasCall {
		return nil
	}
	*in.nextID++
	tmp := ast.NewIdent(fmt.Sprintf("vfHoisted%d", *in.nextID))
	return &ast.BlockStmt{List: []ast.Stmt{
		&ast.AssignStmt{Lhs: []ast.Expr{tmp}, Tok: token.DEFINE, Rhs: []ast.Expr{as.Rhs[0]}},
		&ast.AssignStmt{Lhs: []ast.Expr{as.Lhs[0]}, Tok: token.ASSIGN, Rhs: []ast.Expr{tmp}},
	}}
}

// stmt instruments nested statement lists and function literals and rewrites go statements.
func (in *instrumenter) stmt(s ast.Stmt) ast.Stmt {
	switch x := s.(type) {
	case *ast.BlockStmt:
		in.block(x)
	case *ast.IfStmt:
		in.exprs(x.Init, x.Cond)
		in.block(x.Body)
		if x.Else != nil {
			x.Else = in.stmt(x.Else)
		}
	case *ast.ForStmt:
		in.exprs(x.Init, x.Cond, x.Post)
		in.block(x.Body)
	case *ast.RangeStmt:
		in.exprs(x.X)
		in.block(x.Body)
	case *ast.SwitchStmt:
		in.exprs(x.Init, x.Tag)
		in.clauses(x.Body)
	case *ast.TypeSwitchStmt:
		in.exprs(x.Init, x.Assign)
		in.clauses(x.Body)
	case *ast.SelectStmt:
		in.clauses(x.Body)
	case *ast.LabeledStmt:
		x.Stmt = in.stmt(x.Stmt)
	case *ast.GoStmt:
		return in.goStmt(x)
	default:
		in.exprs(s)
	}
	return s
}

func (in *instrumenter) clauses(b *ast.BlockStmt) {
	for _, c := range b.List {
		switch cc := c.(type) {
		case *ast.CaseClause:
			cc.Body = in.list(cc.Body)
		case *ast.CommClause:
			cc.Body = in.list(cc.Body)
		}
	}
}

// exprs instruments the bodies of function literals occurring inside the given nodes.
func (in *instrumenter) exprs(nodes ...ast.Node) {
	for _, n := range nodes {
		if n == nil || isNilNode(n) {
			continue
		}
		ast.Inspect(n, func(m ast.Node) bool {
			if fl, ok := m.(*ast.FuncLit); ok {
				in.block(fl.Body)
				return false
			}
			return true
		})
	}
}

func isNilNode(n ast.Node) bool {
	switch x := n.(type) {
	case ast.Stmt:
		return x == nil
	case ast.Expr:
		return x == nil
	}
	return false
}

func (in *instrumenter) goStmt(g *ast.GoStmt) ast.Stmt {
	in.tmp++
	k := in.tmp
	gid := ast.NewIdent(fmt.Sprintf("vfG%d", k))
	var pre []ast.Stmt
	pre = append(pre, &ast.AssignStmt{Lhs: []ast.Expr{gid}, Tok: token.DEFINE, Rhs: []ast.Expr{&ast.CallExpr{Fun: ast.NewIdent("vfSpawn")}}})
	call := g.Call
	var fun ast.Expr
	if fl, ok := call.Fun.(*ast.FuncLit); ok {
		in.block(fl.Body)
		fun = &ast.ParenExpr{X: fl}
	} else {
		in.exprs(call.Fun)
		fn := ast.NewIdent(fmt.Sprintf("vfF%d", k))
		pre = append(pre, &ast.AssignStmt{Lhs: []ast.Expr{fn}, Tok: token.DEFINE, Rhs: []ast.Expr{call.Fun}})
		fun = fn
	}
	var args []ast.Expr
	for i, a := range call.Args {
		in.exprs(a)
		an := ast.NewIdent(fmt.Sprintf("vfA%d_%d", k, i))
		pre = append(pre, &ast.AssignStmt{Lhs: []ast.Expr{an}, Tok: token.DEFINE, Rhs: []ast.Expr{a}})
		args = append(args, an)
	}
	inner := &ast.CallExpr{Fun: fun, Args: args, Ellipsis: call.Ellipsis}
	if call.Ellipsis != token.NoPos {
		inner.Ellipsis = 1
	}
	body := &ast.BlockStmt{List: []ast.Stmt{
		&ast.ExprStmt{X: &ast.CallExpr{Fun: ast.NewIdent("vfEnter"), Args: []ast.Expr{gid}}},
		&ast.DeferStmt{Call: &ast.CallExpr{Fun: ast.NewIdent("vfExit"), Args: []ast.Expr{gid}}},
		&ast.ExprStmt{X: inner},
	}}
	goS := &ast.GoStmt{Call: &ast.CallExpr{Fun: &ast.FuncLit{Type: &ast.FuncType{Params: &ast.FieldList{}}, Body: body}}}
	return &ast.BlockStmt{List: append(pre, goS)}
}
