package gosym

import (
	"fmt"
	"go/types"
	"sort"
	"sync"
	"time"

	"golang.org/x/tools/go/ssa"

	"verif/engine/smt"
)

// RunPath executes one path of `entry` following the decision prefix.
func RunPath(p *Program, s *smt.Solver, entry *ssa.Function, prefix []Decision, opt Options) *RunResult {
	m := &Machine{
		P: p, C: smt.NewCtx(), S: s, Opt: opt, name: entry.Name(),
		pcSet: map[T]bool{}, prefix: prefix,
		globals: map[*ssa.Global]*Value{}, nameCnt: map[string]int{},
		mutexes: map[*Value]*mutexState{}, wgs: map[*Value]*wgState{}, pools: map[*Value]*poolState{}, onces: map[*Value]bool{},
		doneCh: make(chan struct{}, 1), arrObjs: map[*Value]*ArrObj{},
		mapOrder: opt.MapOrders,
		// the virtual clock starts at a realistic wall-clock reading (ns since 1970), far from the zero time.Time
		now: 1_700_000_000_000_000_000,
	}
	m.Res = &RunResult{Degraded: map[string]int{}, Blocks: map[*ssa.Function][]bool{}, Reached: map[string]int{}, Asserts: map[string]int{}, BySolver: map[string]int{}, Unknown: map[string]int{}, Funcs: map[string]int{}, Forks: map[string]int{}, Cross: map[string]int{}}
	s.Reset()
	g0 := &goroutine{id: 0, resume: make(chan bool)}
	m.gs = []*goroutine{g0}
	m.cur = g0
	go m.goroutineBody(g0, func() {
		m.inInit = true
		for _, ip := range p.InitPkgs {
			if f := ip.Func("init"); f != nil {
				m.call(f, nil, nil, 0)
			}
		}
		m.inInit = false
		m.settle()
		m.baseG = len(m.gs)
		m.cur.points = 0 // points passed during package initialisation are not seen by the native replay
		var args []Value
		for _, prm := range entry.Params {
			// e.g. func TestX(t *testing.T): a pointer to a zero value
			if pt, ok := prm.Type().Underlying().(*types.Pointer); ok {
				cell := new(Value)
				*cell = m.zero(pt.Elem())
				args = append(args, cell)
			} else {
				args = append(args, m.zero(prm.Type()))
			}
		}
		m.call(entry, args, nil, 0)
	})
	g0.resume <- true
	<-m.doneCh
	finisher := m.cur
	for _, g := range m.gs {
		if g != finisher && !g.done {
			g.resume <- false
		}
	}
	m.Res.SymInputs = len(m.inputs)
	if len(m.pc) > 0 && len(m.pc) <= 12 {
		for _, t := range m.pc {
			m.Res.SamplePC = append(m.Res.SamplePC, t.Pretty())
		}
	}
	return m.Res
}

// HarnessSummary aggregates all paths of one harness.
type HarnessSummary struct {
	Name        string
	Paths       int
	ByStatus    map[string]int
	Violations  map[string]*Violation   // first per label
	Alternates  map[string][]*Violation // up to 10 more per label
	ViolCount   map[string]int
	Asserts     map[string]int
	BySolver    map[string]int
	MaxInputs   int         // most symbolic inputs on one path
	Probed      map[int]int // sizes / durations taken from constants of the code under test (vfProbe*) -> paths
	Unknown     map[string]int
	Reached     map[string]int
	Forks       map[string]int
	Funcs       map[string]bool
	Blocks      map[*ssa.Function][]bool
	Degraded    map[string]int
	Steps       int
	Problems    []string // engine errors, unwind failures, deadlocks (first few)
	Truncated   bool
	MaxDecision int
	Samples     []PathSample
	Cross       map[string]int
}

type PathSample struct {
	Decisions []Decision `json:"decisions"`
	PC        []string   `json:"path_condition,omitempty"`
	Status    string     `json:"status"`
}

type ExploreConfig struct {
	Workers   int
	MaxPaths  int // per harness
	Opt       Options
	TimeoutMs int
	Deadline  time.Time
	Verbose   bool
	SolverLog string
}

type task struct {
	h      int
	prefix []Decision
}

// Explore runs all harnesses to completion (or bound) with a shared pool of workers.
func Explore(p *Program, entries []*ssa.Function, cfg ExploreConfig) ([]*HarnessSummary, smt.Stats) {
	sums := make([]*HarnessSummary, len(entries))
	for i, e := range entries {
		sums[i] = &HarnessSummary{Name: e.Name(), ByStatus: map[string]int{}, Violations: map[string]*Violation{}, ViolCount: map[string]int{},
			Asserts: map[string]int{}, BySolver: map[string]int{}, Unknown: map[string]int{}, Reached: map[string]int{}, Forks: map[string]int{}, Funcs: map[string]bool{}}
	}
	var mu sync.Mutex
	cond := sync.NewCond(&mu)
	var stack []task
	for i := len(entries) - 1; i >= 0; i-- {
		stack = append(stack, task{h: i})
	}
	active := 0
	var total smt.Stats
	var wg sync.WaitGroup
	for w := 0; w < cfg.Workers; w++ {
		wg.Add(1)
		go func(w int) {
			defer wg.Done()
			s, err := smt.NewSolver("z3", smt.Z3Argv(), cfg.TimeoutMs)
			if err != nil {
				panic(err)
			}
			defer s.Close()
			for {
				mu.Lock()
				for len(stack) == 0 && active > 0 {
					cond.Wait()
				}
				if len(stack) == 0 {
					mu.Unlock()
					cond.Broadcast()
					break
				}
				t := stack[len(stack)-1]
				stack = stack[:len(stack)-1]
				sum := sums[t.h]
				if sum.Paths >= cfg.MaxPaths || (!cfg.Deadline.IsZero() && time.Now().After(cfg.Deadline)) {
					sum.Truncated = true
					mu.Unlock()
					continue
				}
				sum.Paths++
				active++
				mu.Unlock()

				res := RunPath(p, s, entries[t.h], t.prefix, cfg.Opt)

				mu.Lock()
				active--
				for _, sib := range res.Siblings {
					stack = append(stack, task{h: t.h, prefix: sib})
				}
				sum.absorb(res)
				if s.LastErr != "" && len(sum.Problems) < 5 {
					sum.Problems = append(sum.Problems, "solver: "+s.LastErr)
					s.LastErr = ""
				}
				mu.Unlock()
				cond.Broadcast()
			}
			mu.Lock()
			total.Queries += s.St.Queries
			total.Sat += s.St.Sat
			total.Unsat += s.St.Unsat
			total.Unknown += s.St.Unknown
			total.Errors += s.St.Errors
			total.SolverNS += s.St.SolverNS
			mu.Unlock()
		}(w)
	}
	wg.Wait()
	return sums, total
}

func (s *HarnessSummary) absorb(r *RunResult) {
	s.ByStatus[r.Status.String()]++
	s.Steps += r.Steps
	if len(r.Trace) > s.MaxDecision {
		s.MaxDecision = len(r.Trace)
	}
	for k, v := range r.Asserts {
		s.Asserts[k] += v
	}
	for k, v := range r.BySolver {
		s.BySolver[k] += v
	}
	for _, v := range r.Probed {
		if s.Probed == nil {
			s.Probed = map[int]int{}
		}
		s.Probed[v]++
	}
	if r.SymInputs > s.MaxInputs {
		s.MaxInputs = r.SymInputs
	}
	for k, v := range r.Unknown {
		s.Unknown[k] += v
	}
	for k, v := range r.Reached {
		s.Reached[k] += v
	}
	for k, v := range r.Forks {
		s.Forks[k] += v
	}
	for k, v := range r.Cross {
		if s.Cross == nil {
			s.Cross = map[string]int{}
		}
		s.Cross[k] += v
	}
	for k := range r.Funcs {
		s.Funcs[k] = true
	}
	if s.Blocks == nil {
		s.Blocks = map[*ssa.Function][]bool{}
	}
	for k, v := range r.Degraded {
		if s.Degraded == nil {
			s.Degraded = map[string]int{}
		}
		s.Degraded[k] += v
	}
	for fn, cov := range r.Blocks {
		dst := s.Blocks[fn]
		if dst == nil {
			dst = make([]bool, len(cov))
			s.Blocks[fn] = dst
		}
		for i, c := range cov {
			if c {
				dst[i] = true
			}
		}
	}
	for i := range r.Violations {
		v := r.Violations[i]
		s.ViolCount[v.Label]++
		if _, ok := s.Violations[v.Label]; !ok {
			s.Violations[v.Label] = &v
		} else if n := s.ViolCount[v.Label]; len(s.Alternates[v.Label]) < 3 || (len(s.Alternates[v.Label]) < 10 && n&(n-1) == 0) {
			// the 2nd..4th and then the 8th, 16th, 32nd ... counterexample: spares spread over the exploration
			// further counterexamples for the same obligation, from other paths: replayed only if the first one does
			// not reproduce natively (e.g. because it leans on an evaluation order the compiler does not use)
			if s.Alternates == nil {
				s.Alternates = map[string][]*Violation{}
			}
			s.Alternates[v.Label] = append(s.Alternates[v.Label], &v)
		}
	}
	switch r.Status {
	case StEngineError, StUnwind, StStepLimit:
		if len(s.Problems) < 5 {
			s.Problems = append(s.Problems, fmt.Sprintf("%s: %s", r.Status, r.Msg))
		}
	case StCrash, StDeadlock:
		// an unrecovered panic / deadlock is itself a violation (label = status); normally recorded with a model already
		label := r.Status.String()
		if _, ok := s.Violations[label]; !ok {
			s.ViolCount[label]++
			s.Violations[label] = &Violation{Harness: s.Name, Label: label, Msg: r.Msg, Decisions: r.Trace}
		}
	}
	if len(s.Samples) < 3 {
		s.Samples = append(s.Samples, PathSample{Decisions: r.Trace, PC: r.SamplePC, Status: r.Status.String()})
	}
}

func SortedLabels(m map[string]*Violation) []string {
	var ks []string
	for k := range m {
		ks = append(ks, k)
	}
	sort.Strings(ks)
	return ks
}
