package gosym

import (
	"bytes"
	"fmt"
	"go/ast"
	"go/parser"
	"go/printer"
	"go/token"
	"regexp"
	"strings"
)

// VfWrappers generates, from the native vf runtime sources (package rootName), (1) a file of exported wrappers
// `func VfX(...) = vfX(...)` for the root package and (2) a file of shims `func vfX(...) = vfroot.VfX(...)` for a
// dependent package, so that harnesses in that package share the root package's single replay controller.
func VfWrappers(names []string, srcs []string, rootName, depName, modPath string, vocabulary string) (exports string, shims string, err error) {
	wanted := map[string]bool{"vfReplayMain": true}
	for _, m := range vocabRe.FindAllStringSubmatch(vocabulary, -1) {
		wanted[m[1]] = true
	}
	var eb, sb bytes.Buffer
	fmt.Fprintf(&eb, "package %s\n\nimport (\n\t\"context\"\n\t\"time\"\n)\n\nvar _ time.Duration\nvar _ context.Context\n\n", rootName)
	fmt.Fprintf(&sb, "package %s\n\nimport (\n\t\"context\"\n\t\"time\"\n\tvfroot %q\n)\n\nvar _ time.Duration\nvar _ context.Context\n\n", depName, modPath)
	for i, src := range srcs {
		fset := token.NewFileSet()
		f, perr := parser.ParseFile(fset, names[i], src, 0)
		if perr != nil {
			return "", "", perr
		}
		for _, d := range f.Decls {
			fd, ok := d.(*ast.FuncDecl)
			if !ok || fd.Recv != nil || !strings.HasPrefix(fd.Name.Name, "vf") {
				continue
			}
			if usesUnexportedTypes(fd.Type) || !wanted[fd.Name.Name] {
				continue
			}
			exported := "V" + fd.Name.Name[1:]
			var ps []string
			var args []string
			n := 0
			if fd.Type.Params != nil {
				for _, fld := range fd.Type.Params.List {
					var tb bytes.Buffer
					printer.Fprint(&tb, fset, fld.Type)
					ts := tb.String()
					cnt := len(fld.Names)
					if cnt == 0 {
						cnt = 1
					}
					for k := 0; k < cnt; k++ {
						an := fmt.Sprintf("a%d", n)
						n++
						ps = append(ps, an+" "+ts)
						if strings.HasPrefix(ts, "...") {
							args = append(args, an+"...")
						} else {
							args = append(args, an)
						}
					}
				}
			}
			res := ""
			ret := ""
			if fd.Type.Results != nil && len(fd.Type.Results.List) > 0 {
				var rs []string
				for _, fld := range fd.Type.Results.List {
					var tb bytes.Buffer
					printer.Fprint(&tb, fset, fld.Type)
					cnt := len(fld.Names)
					if cnt == 0 {
						cnt = 1
					}
					for k := 0; k < cnt; k++ {
						rs = append(rs, tb.String())
					}
				}
				res = " (" + strings.Join(rs, ", ") + ")"
				ret = "return "
			}
			fmt.Fprintf(&eb, "func %s(%s)%s { %s%s(%s) }\n", exported, strings.Join(ps, ", "), res, ret, fd.Name.Name, strings.Join(args, ", "))
			fmt.Fprintf(&sb, "func %s(%s)%s { %svfroot.%s(%s) }\n", fd.Name.Name, strings.Join(ps, ", "), res, ret, exported, strings.Join(args, ", "))
		}
	}
	return eb.String(), sb.String(), nil
}

// usesUnexportedTypes: wrappers are only generated for functions whose signature mentions builtin / exported types.
func usesUnexportedTypes(ft *ast.FuncType) bool {
	bad := false
	check := func(fl *ast.FieldList) {
		if fl == nil {
			return
		}
		for _, f := range fl.List {
			ast.Inspect(f.Type, func(n ast.Node) bool {
				if id, ok := n.(*ast.Ident); ok {
					if strings.HasPrefix(id.Name, "vf") {
						bad = true
					}
				}
				return true
			})
		}
	}
	check(ft.Params)
	check(ft.Results)
	return bad
}

var vocabRe = regexp.MustCompile(`(?m)^func (vf\w+)\(`)
