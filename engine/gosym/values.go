// Package gosym: a symbolic interpreter for go/ssa. Shapes (pointers, lengths, dynamic
// types, map entries, channel buffers) are concrete per path; scalars are SMT terms.
package gosym

import (
	"fmt"
	"go/types"
	"strings"

	"golang.org/x/tools/go/ssa"

	"verif/engine/smt"
)

type Value interface{}

type T = *smt.Term

// Struct and Array values are copied on load/store (value semantics).
type Struct []Value
type Array []Value
type Tuple []Value

// ArrObj is the backing store of slices.
type ArrObj struct {
	Elems []Value
	ID    int
}

type Slice struct {
	Arr           *ArrObj // nil => nil slice
	Off, Len, Cap int
}

type Iface struct {
	T types.Type // nil => nil interface
	V Value
}

type Closure struct {
	Fn  *ssa.Function
	Env []Value
}

// BoundMethod: result of ssa.MakeClosure over a bound-method wrapper is an ordinary closure; nothing special.

type MapEntry struct {
	K, V    Value
	Deleted bool
}

type MapObj struct {
	KT, VT  types.Type
	Entries []*MapEntry // insertion order; deleted entries are removed
	ID      int
}

func (m *MapObj) Len() int { return len(m.Entries) }

type mapIter struct {
	m     *MapObj
	order []*MapEntry
	i     int
}

type strIter struct {
	s string
	i int
}

// reflect models
type RValue struct {
	T     types.Type // nil => invalid Value
	V     Value
	Addr  *Value // non-nil when addressable (result of Elem() on a pointer)
	Valid bool
	RO    bool // obtained through an unexported field
}

type RType struct{ T types.Type }

// Rope-free string representation: a string value is either a Go string (concrete)
// or a *smt.Term of sort String.

func isNilPtr(v Value) bool {
	p, ok := v.(*Value)
	return ok && p == nil
}

// copyVal copies aggregates so that register values never alias memory.
func copyVal(v Value) Value {
	switch x := v.(type) {
	case Struct:
		n := make(Struct, len(x))
		for i, f := range x {
			n[i] = copyVal(f)
		}
		return n
	case Array:
		n := make(Array, len(x))
		for i, f := range x {
			n[i] = copyVal(f)
		}
		return n
	case Tuple:
		n := make(Tuple, len(x))
		for i, f := range x {
			n[i] = copyVal(f)
		}
		return n
	}
	return v
}

// store writes v into *addr preserving the identity of field/element cells.
func store(addr *Value, v Value) {
	switch nv := v.(type) {
	case Struct:
		if old, ok := (*addr).(Struct); ok && len(old) == len(nv) {
			for i := range old {
				store(&old[i], nv[i])
			}
			return
		}
	case Array:
		if old, ok := (*addr).(Array); ok && len(old) == len(nv) {
			for i := range old {
				store(&old[i], nv[i])
			}
			return
		}
	}
	*addr = copyVal(v)
}

func load(addr *Value) Value { return copyVal(*addr) }

// ---- type helpers ----

func underlying(t types.Type) types.Type {
	return t.Underlying()
}

type numKind struct {
	width  int
	signed bool
	float  bool
}

func basicInfo(t types.Type) (numKind, bool) {
	b, ok := t.Underlying().(*types.Basic)
	if !ok {
		return numKind{}, false
	}
	switch b.Kind() {
	case types.Int, types.Int64, types.UntypedInt, types.UntypedRune:
		return numKind{64, true, false}, true
	case types.Int8:
		return numKind{8, true, false}, true
	case types.Int16:
		return numKind{16, true, false}, true
	case types.Int32:
		return numKind{32, true, false}, true
	case types.Uint, types.Uint64, types.Uintptr:
		return numKind{64, false, false}, true
	case types.Uint8:
		return numKind{8, false, false}, true
	case types.Uint16:
		return numKind{16, false, false}, true
	case types.Uint32:
		return numKind{32, false, false}, true
	case types.Float32:
		return numKind{32, true, true}, true
	case types.Float64, types.UntypedFloat:
		return numKind{64, true, true}, true
	}
	return numKind{}, false
}

func isString(t types.Type) bool {
	b, ok := t.Underlying().(*types.Basic)
	return ok && b.Info()&types.IsString != 0
}

func isBool(t types.Type) bool {
	b, ok := t.Underlying().(*types.Basic)
	return ok && b.Info()&types.IsBoolean != 0
}

func isReflectValueType(t types.Type) bool {
	n, ok := t.(*types.Named)
	return ok && n.Obj().Pkg() != nil && n.Obj().Pkg().Path() == "reflect" && n.Obj().Name() == "Value"
}

func describe(v Value) string {
	switch x := v.(type) {
	case nil:
		return "<nil>"
	case T:
		return x.Pretty()
	case string:
		return fmt.Sprintf("%q", x)
	case Struct:
		var parts []string
		for _, f := range x {
			parts = append(parts, describe(f))
		}
		return "{" + strings.Join(parts, ", ") + "}"
	case Array:
		var parts []string
		for _, f := range x {
			parts = append(parts, describe(f))
		}
		return "[" + strings.Join(parts, ", ") + "]"
	case Tuple:
		var parts []string
		for _, f := range x {
			parts = append(parts, describe(f))
		}
		return "(" + strings.Join(parts, ", ") + ")"
	case Slice:
		if x.Arr == nil {
			return "[]nil"
		}
		var parts []string
		for i := 0; i < x.Len; i++ {
			parts = append(parts, describe(x.Arr.Elems[x.Off+i]))
		}
		return fmt.Sprintf("[%s |len=%d cap=%d]", strings.Join(parts, ", "), x.Len, x.Cap)
	case Iface:
		if x.T == nil {
			return "iface(nil)"
		}
		return fmt.Sprintf("iface(%s: %s)", x.T, describe(x.V))
	case *Value:
		if x == nil {
			return "ptr(nil)"
		}
		return fmt.Sprintf("ptr(%p)", x)
	case *MapObj:
		if x == nil {
			return "map(nil)"
		}
		var parts []string
		for _, e := range x.Entries {
			parts = append(parts, describe(e.K)+":"+describe(e.V))
		}
		return "map[" + strings.Join(parts, ", ") + "]"
	case *Closure:
		if x == nil {
			return "func(nil)"
		}
		return "closure " + x.Fn.Name()
	case *ssa.Function:
		if x == nil {
			return "func(nil)"
		}
		return "func " + x.Name()
	case *ChanObj:
		if x == nil {
			return "chan(nil)"
		}
		return fmt.Sprintf("chan#%d", x.ID)
	case RValue:
		return "reflect.Value(" + describe(x.V) + ")"
	case RType:
		return "reflect.Type(" + x.T.String() + ")"
	}
	return fmt.Sprintf("%T", v)
}
