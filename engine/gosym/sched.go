package gosym

import (
	"fmt"
	"go/token"
	"go/types"
	"runtime/debug"

	"golang.org/x/tools/go/ssa"
)

type goroutine struct {
	points    int
	lastPoint string
	id        int
	stack     []*frame
	resume    chan bool
	done      bool
	daemon    bool
	waiting   func() bool
	what      string
	started   bool
	visible   bool // did something another goroutine could observe since its last scheduling point
}

type sudog struct {
	g      *goroutine
	ch     *ChanObj
	send   bool
	val    Value
	ok     bool // recv: value came from a send (not close)
	done   bool
	caseIx int
	sel    *selState
}

type selState struct {
	fired *sudog
}

type ChanObj struct {
	ID     int
	Cap    int
	Buf    []Value
	Closed bool
	recvq  []*sudog
	sendq  []*sudog
	ET     types.Type
	timer  bool
}

type timer struct {
	when  int64
	ch    *ChanObj
	fired bool
	g     *goroutine // sleeper (for Sleep)
}

type mutexState struct {
	writer  bool
	readers int
	owner   *goroutine
}
type wgState struct{ n int64 }
type condState struct{ next, released int } // tickets handed to waiters / tickets released by Signal, Broadcast
type poolState struct{ items []Value }

func (m *Machine) newChan(n int) *ChanObj {
	if n < 0 {
		m.runtimePanic(nil, "makechan: size out of range")
	}
	return &ChanObj{ID: m.newID(), Cap: n}
}

// ---- goroutine plumbing ----

func (m *Machine) alive() int {
	n := 0
	for _, g := range m.gs {
		if !g.done {
			n++
		}
	}
	return n
}

func (m *Machine) spawn(fn Value, args []Value, fr *frame, pos token.Pos) {
	g := &goroutine{id: len(m.gs), resume: make(chan bool), daemon: m.inInit}
	m.gs = append(m.gs, g)
	go m.goroutineBody(g, func() { m.call(fn, args, nil, pos) })
	m.yield("go")
}

func (m *Machine) goroutineBody(g *goroutine, body func()) {
	defer func() {
		r := recover()
		switch x := r.(type) {
		case nil:
			return
		case pathEnd:
			if x.st == stAbort {
				return
			}
			m.finish(x.st, x.msg)
		case *goPanic:
			msg := fmt.Sprintf("unrecovered panic in goroutine %d: %s at %s", g.id, m.panicText(x.val), x.pos)
			if !m.aborted {
				m.modelViolation("crash", nil, x.pos, msg)
			}
			m.finish(StCrash, msg)
		default:
			m.finish(StEngineError, fmt.Sprintf("engine bug: %v\n%s", r, debug.Stack()))
		}
	}()
	if ok := <-g.resume; !ok {
		return
	}
	g.started = true
	body()
	g.done = true
	if g.id == 0 {
		m.finish(StOK, "")
		return
	}
	// hand over to someone else; this Go goroutine then exits
	m.pick(false, true)
}

const stAbort Status = 100

// finish is called exactly once per run by the goroutine that ends the path.
func (m *Machine) finish(st Status, msg string) {
	if m.aborted {
		return
	}
	m.aborted = true
	m.Res.Status = st
	m.Res.Msg = msg
	m.doneCh <- struct{}{}
}

func (m *Machine) switchTo(target *goroutine, exiting bool) {
	prev := m.cur
	m.cur = target
	target.resume <- true
	if exiting {
		return
	}
	if ok := <-prev.resume; !ok {
		panic(pathEnd{st: stAbort})
	}
}

func (m *Machine) enabled(g *goroutine) bool {
	if g.done {
		return false
	}
	return g.waiting == nil || g.waiting()
}

// yield is a scheduling point at which the current goroutine remains runnable.
func (m *Machine) yield(kind string) {
	if m.inInit || len(m.gs) <= 1 {
		return
	}
	if m.P.Instrumented && kind != "point" {
		// instrumented programs are scheduled at statement boundaries (vfPoint) only, so that the native
		// replay sees exactly the same points
		return
	}
	if kind == "point" && !m.Opt.NoPOR {
		// Partial-order reduction. If the current goroutine has done nothing since its previous scheduling point that
		// another goroutine could observe (only registers, non-escaping locals and pure vf calls), preempting it here
		// is equivalent - same final state, same or lower delay cost - to preempting it at that previous point, which
		// is explored separately; so no decision is offered here.
		if !m.cur.visible {
			return
		}
		m.cur.visible = false
	}
	m.pick(true, false)
}

// blockUntil parks the current goroutine until pred holds.
func (m *Machine) blockUntil(what string, pred func() bool) {
	g := m.cur
	g.visible = true
	g.waiting = pred
	g.what = what
	for !pred() {
		m.pick(false, false)
	}
	g.waiting = nil
}

// pick chooses the next goroutine to run (delay-bounded round robin).
func (m *Machine) pick(curEnabled bool, exiting bool) {
	for {
		var list []*goroutine
		cur := m.cur
		if !exiting && (curEnabled || (cur.waiting != nil && cur.waiting())) {
			list = append(list, cur)
		}
		n := len(m.gs)
		for i := 1; i <= n; i++ {
			g := m.gs[(cur.id+i)%n]
			if g == cur {
				continue
			}
			if m.enabled(g) {
				list = append(list, g)
			}
		}
		if len(list) == 0 {
			if m.quiesceWaiter != nil && !m.quiesceWaiter.done && !m.timerBefore(m.quiesceDeadline) {
				// quiescent: nothing can run and no timer is due within the horizon of the waiting vfQuiesce
			} else if m.advanceTime() {
				continue
			}
			// quiescence?
			if m.quiesceWaiter != nil && !m.quiesceWaiter.done {
				m.quiesced = true
				if m.quiesceWaiter == cur && !exiting {
					return
				}
				if !exiting && !m.settling && !m.inInit {
					// the last runnable goroutine blocked and everything is quiet: control returns to the goroutine
					// waiting in vfQuiesce - an ordinary hand-over for the native replay controller
					m.sched = append(m.sched, SchedEntry{Kind: "block", From: cur.id, Points: cur.points, To: m.quiesceWaiter.id})
				}
				m.switchTo(m.quiesceWaiter, exiting)
				return
			}
			var blocked []string
			for _, g := range m.gs {
				if !g.done && !g.daemon {
					blocked = append(blocked, fmt.Sprintf("g%d:%s", g.id, g.what))
				}
			}
			msg := fmt.Sprintf("all goroutines blocked: %v", blocked)
			m.modelViolation("deadlock", nil, "", msg)
			m.end(StDeadlock, "%s", msg)
		}
		if m.settling {
			// deterministic: run every other goroutine until it blocks, main last (no decisions, no delays)
			for i, g := range list {
				if g.id != 0 {
					list[0], list[i] = list[i], list[0]
					break
				}
			}
			list = list[:1]
		}
		maxAlt := len(list)
		if rem := m.Opt.DelayBound - m.delays + 1; rem < maxAlt {
			maxAlt = rem
		}
		if maxAlt < 1 {
			maxAlt = 1
		}
		k := 0
		if maxAlt > 1 {
			k = m.choose("sched", maxAlt, nil)
		}
		m.delays += k
		target := list[k]
		if target == cur && !exiting {
			return
		}
		if !m.settling && !m.inInit {
			kind := "block"
			if exiting {
				kind = "exit"
			} else if curEnabled {
				kind = "preempt"
			}
			m.sched = append(m.sched, SchedEntry{Kind: kind, From: cur.id, Points: cur.points, To: target.id})
		}
		m.switchTo(target, exiting)
		return
	}
}

// advanceTime moves the virtual clock to the earliest pending timer and fires it.
func (m *Machine) advanceTime() bool {
	var best *timer
	for _, t := range m.timers {
		if !t.fired && (best == nil || t.when < best.when) {
			best = t
		}
	}
	if best == nil {
		return false
	}
	if best.when > m.now {
		m.now = best.when
	}
	m.fireDue()
	return true
}

func (m *Machine) fireDue() {
	for _, t := range m.timers {
		if !t.fired && t.when <= m.now {
			t.fired = true
			if t.ch != nil {
				// time.After channel has capacity 1
				t.ch.Buf = append(t.ch.Buf, m.timeValue(t.when))
				m.wakeRecv(t.ch)
			}
		}
	}
	// compact
	var rest []*timer
	for _, t := range m.timers {
		if !t.fired {
			rest = append(rest, t)
		}
	}
	m.timers = rest
}

// ---- channels ----

func (m *Machine) wakeRecv(ch *ChanObj) {
	for len(ch.recvq) > 0 && len(ch.Buf) > 0 {
		sd := ch.recvq[0]
		ch.recvq = ch.recvq[1:]
		if sd.sel != nil {
			if sd.sel.fired != nil {
				continue
			}
			sd.sel.fired = sd
		}
		sd.val = ch.Buf[0]
		ch.Buf = ch.Buf[1:]
		sd.ok = true
		sd.done = true
	}
}

func (m *Machine) dequeueLive(q *[]*sudog) *sudog {
	for len(*q) > 0 {
		sd := (*q)[0]
		*q = (*q)[1:]
		if sd.sel != nil && sd.sel.fired != nil {
			continue
		}
		return sd
	}
	return nil
}

func hasLive(q []*sudog) bool {
	for _, sd := range q {
		if sd.sel == nil || sd.sel.fired == nil {
			return true
		}
	}
	return false
}

// trySend attempts a non-blocking send; returns true when done.
func (m *Machine) trySend(fr *frame, ch *ChanObj, v Value) bool {
	if ch.Closed {
		m.runtimePanic(fr, "send on closed channel")
	}
	if sd := m.dequeueLive(&ch.recvq); sd != nil {
		if sd.sel != nil {
			sd.sel.fired = sd
		}
		sd.val = copyVal(v)
		sd.ok = true
		sd.done = true
		return true
	}
	if len(ch.Buf) < ch.Cap {
		ch.Buf = append(ch.Buf, copyVal(v))
		return true
	}
	return false
}

func (m *Machine) canSend(ch *ChanObj) bool {
	return ch.Closed || hasLive(ch.recvq) || len(ch.Buf) < ch.Cap
}

func (m *Machine) canRecv(ch *ChanObj) bool {
	return len(ch.Buf) > 0 || hasLive(ch.sendq) || ch.Closed
}

// tryRecv attempts a non-blocking receive.
func (m *Machine) tryRecv(ch *ChanObj) (Value, bool, bool) {
	if len(ch.Buf) > 0 {
		v := ch.Buf[0]
		ch.Buf = ch.Buf[1:]
		// a blocked sender can now move its value into the buffer
		if sd := m.dequeueLive(&ch.sendq); sd != nil {
			if sd.sel != nil {
				sd.sel.fired = sd
			}
			ch.Buf = append(ch.Buf, sd.val)
			sd.done = true
		}
		return v, true, true
	}
	if sd := m.dequeueLive(&ch.sendq); sd != nil {
		if sd.sel != nil {
			sd.sel.fired = sd
		}
		sd.done = true
		return sd.val, true, true
	}
	if ch.Closed {
		return nil, false, true
	}
	return nil, false, false
}

func (m *Machine) chanSend(fr *frame, ch *ChanObj, v Value) {
	m.yield("send")
	if ch == nil {
		m.blockUntil("send on nil chan", func() bool { return false })
	}
	if m.trySend(fr, ch, v) {
		return
	}
	sd := &sudog{g: m.cur, ch: ch, send: true, val: copyVal(v)}
	ch.sendq = append(ch.sendq, sd)
	m.blockUntil(fmt.Sprintf("send chan#%d", ch.ID), func() bool { return sd.done || ch.Closed })
	if !sd.done && ch.Closed {
		m.runtimePanic(fr, "send on closed channel")
	}
}

func (m *Machine) recvResult(v Value, ok bool, commaOk bool, et types.Type) Value {
	if !ok {
		v = m.zero(et)
	}
	if commaOk {
		return Tuple{v, m.C.BoolC(ok)}
	}
	return v
}

func (m *Machine) chanRecv(fr *frame, ch *ChanObj, commaOk bool, et types.Type) Value {
	m.yield("recv")
	if ch == nil {
		m.blockUntil("recv on nil chan", func() bool { return false })
	}
	if v, ok, done := m.tryRecv(ch); done {
		return m.recvResult(v, ok, commaOk, et)
	}
	sd := &sudog{g: m.cur, ch: ch}
	ch.recvq = append(ch.recvq, sd)
	m.blockUntil(fmt.Sprintf("recv chan#%d", ch.ID), func() bool { return sd.done || ch.Closed })
	if sd.done {
		return m.recvResult(sd.val, sd.ok, commaOk, et)
	}
	// closed while waiting
	return m.recvResult(nil, false, commaOk, et)
}

func (m *Machine) chanClose(fr *frame, ch *ChanObj) {
	m.yield("close")
	if ch == nil {
		m.runtimePanic(fr, "close of nil channel")
	}
	if ch.Closed {
		m.runtimePanic(fr, "close of closed channel")
	}
	ch.Closed = true
	// waiting receivers observe the close via their predicate; waiting senders panic when resumed - their values are
	// never delivered (the runtime releases every blocked sender with a panic), so they leave the send queue now
	ch.sendq = nil
}

// selectOp implements ssa.Select.
func (m *Machine) selectOp(fr *frame, in *ssa.Select) Value {
	m.yield("select")
	type cs struct {
		ch   *ChanObj
		send bool
		val  Value
		et   types.Type
	}
	var cases []cs
	for _, st := range in.States {
		c := cs{send: st.Dir == types.SendOnly}
		c.ch, _ = fr.get(st.Chan).(*ChanObj)
		if c.send {
			c.val = fr.get(st.Send)
		} else {
			c.et = st.Chan.Type().Underlying().(*types.Chan).Elem()
		}
		cases = append(cases, c)
	}
	result := func(ix int, recvOK bool, vals map[int]Value) Value {
		out := Tuple{m.C.BVC(uint64(int64(ix)), 64), m.C.BoolC(recvOK)}
		for i, c := range cases {
			if !c.send {
				if v, ok := vals[i]; ok && v != nil {
					out = append(out, v)
				} else {
					out = append(out, m.zero(c.et))
				}
			}
		}
		return out
	}
	for {
		var ready []int
		for i, c := range cases {
			if c.ch == nil {
				continue
			}
			if c.send && m.canSend(c.ch) || !c.send && m.canRecv(c.ch) {
				ready = append(ready, i)
			}
		}
		if len(ready) > 0 {
			k := ready[m.choose("select", len(ready), nil)]
			c := cases[k]
			if c.send {
				if !m.trySend(fr, c.ch, c.val) {
					m.engineErr("select: send not ready")
				}
				return result(k, false, nil)
			}
			v, ok, _ := m.tryRecv(c.ch)
			return result(k, ok, map[int]Value{k: v})
		}
		if !in.Blocking {
			return result(-1, false, nil)
		}
		// park on all channels
		sel := &selState{}
		var sds []*sudog
		for i, c := range cases {
			if c.ch == nil {
				continue
			}
			sd := &sudog{g: m.cur, ch: c.ch, send: c.send, val: copyVal(c.val), caseIx: i, sel: sel}
			sds = append(sds, sd)
			if c.send {
				c.ch.sendq = append(c.ch.sendq, sd)
			} else {
				c.ch.recvq = append(c.ch.recvq, sd)
			}
		}
		m.blockUntil("select", func() bool {
			if sel.fired != nil {
				return true
			}
			for _, c := range cases {
				if c.ch != nil && c.ch.Closed {
					return true
				}
			}
			return false
		})
		if sel.fired != nil {
			sd := sel.fired
			if sd.send {
				return result(sd.caseIx, false, nil)
			}
			return result(sd.caseIx, sd.ok, map[int]Value{sd.caseIx: sd.val})
		}
		// some channel was closed: mark the select as fired so stale sudogs are skipped, and retry
		sel.fired = &sudog{}
	}
}

// ---- time ----

func (m *Machine) timeValue(ns int64) Value {
	// time.Time{wall uint64, ext int64, loc *Location}
	return Struct{m.C.BVC(0, 64), m.C.BVC(uint64(ns), 64), (*Value)(nil)}
}

func (m *Machine) timeNow() Value {
	// successive readings are strictly increasing (environment assumption, see DESIGN §2.6)
	m.now++
	return m.timeValue(m.now)
}

func (m *Machine) sleep(d int64) {
	m.yield("sleep")
	if d <= 0 {
		return
	}
	t := &timer{when: m.now + d}
	m.timers = append(m.timers, t)
	m.blockUntil("sleep", func() bool { return t.fired })
}

// cancelTimer removes the pending timer feeding ch; reports whether one was pending.
func (m *Machine) cancelTimer(ch *ChanObj) bool {
	was := false
	var rest []*timer
	for _, t := range m.timers {
		if t.ch == ch && ch != nil && !t.fired {
			was = true
			continue
		}
		rest = append(rest, t)
	}
	m.timers = rest
	return was
}

// markVisible: the current goroutine did something another goroutine could observe (see yield).
func (m *Machine) markVisible() {
	if m.cur != nil {
		m.cur.visible = true
	}
}

func (m *Machine) after(d int64) *ChanObj {
	ch := &ChanObj{ID: m.newID(), Cap: 1, timer: true}
	t := &timer{when: m.now + d, ch: ch}
	if d <= 0 {
		t.when = m.now
	}
	m.timers = append(m.timers, t)
	if d <= 0 {
		// a timer that is due at once fires at once (the real runtime delivers it "immediately"): a select that follows
		// finds its channel ready next to whatever else is ready
		m.fireDue()
	}
	return ch
}

// settle lets every goroutine spawned so far (package init: the default Handler) run until it blocks.
func (m *Machine) settle() {
	m.settling = true
	for {
		other := false
		for _, g := range m.gs {
			if g != m.cur && m.enabled(g) {
				other = true
			}
		}
		if !other {
			break
		}
		m.pick(true, false)
	}
	m.settling = false
}

// timerBefore: is some timer pending that fires at or before t?
func (m *Machine) timerBefore(t int64) bool {
	for _, tm := range m.timers {
		if !tm.fired && tm.when <= t {
			return true
		}
	}
	return false
}
