package gosym

import (
	"fmt"
	"go/token"
	"go/types"
	"os"
	"sort"
	"strings"
	"sync/atomic"
	"time"

	"golang.org/x/tools/go/ssa"

	"verif/engine/smt"
)

// Decision identifies one fork outcome on a path.
type Decision struct {
	Kind string   `json:"k"`           // br, idx, choose, conc, maporder, sched, select, ...
	N    int      `json:"n"`           // alternative index (for conc: unused)
	Val  uint64   `json:"v,omitempty"` // conc: chosen value
	Excl []uint64 `json:"x,omitempty"` // conc sibling: pick a value not in Excl
	Pick bool     `json:"p,omitempty"` // conc sibling marker: value still to be picked
}

type InputVal struct {
	Name string `json:"name"`
	Type string `json:"type"`
	Val  string `json:"val"` // decimal (ints as signed/unsigned per type), true/false, or quoted string
	Bits uint64 `json:"bits"`
}

type AppVal struct {
	Fn   string   `json:"fn"`
	Args []uint64 `json:"args"`
	Ret  uint64   `json:"ret"`
}

// SchedEntry: one context switch of the explored schedule (for the native replay controller).
type SchedEntry struct {
	Kind   string `json:"kind"` // preempt (at a vfPoint), block (goroutine blocked), exit (goroutine ended)
	From   int    `json:"from"`
	Points int    `json:"points"` // number of vfPoints goroutine `from` has passed when it is switched out
	To     int    `json:"to"`
}

type Violation struct {
	Sched     []SchedEntry `json:"sched,omitempty"`
	BaseG     int          `json:"base_g,omitempty"`
	Harness   string       `json:"harness"`
	Label     string       `json:"label"`
	Msg       string       `json:"msg,omitempty"`
	Inputs    []InputVal   `json:"inputs"`
	Apps      []AppVal     `json:"apps"`
	Decisions []Decision   `json:"decisions"`
	Choices   []int        `json:"choices"` // vfChoose / concretized values in program order (for native replay)
	Pos       string       `json:"pos,omitempty"`
	Trace     []string     `json:"trace,omitempty"`
}

type Status int

const (
	StOK Status = iota
	StInfeasible
	StAssumeFalse
	StCrash
	StDeadlock
	StUnwind
	StEngineError
	StStepLimit
)

func (s Status) String() string {
	return [...]string{"ok", "infeasible", "assume-false", "crash", "deadlock", "unwind", "engine-error", "step-limit"}[s]
}

type RunResult struct {
	Probed     []int // sizes taken from code-derived thresholds (vfProbe) on this path
	Status     Status
	Msg        string
	Trace      []Decision
	Siblings   [][]Decision
	Violations []Violation
	Reached    map[string]int
	Asserts    map[string]int           // label -> discharged count (unsat or trivially true)
	BySolver   map[string]int           // label -> of those, how many needed a solver verdict (unsat); the rest were reduced to true by term rewriting
	SymInputs  int                      // symbolic inputs created on this path
	Unknown    map[string]int           // label -> inconclusive count
	Funcs      map[string]int           // functions entered -> instr count
	Blocks     map[*ssa.Function][]bool // basic blocks entered (code under test only)
	Degraded   map[string]int           // reasons for which this path covers less than its symbolic inputs say
	Steps      int
	Forks      map[string]int
	SamplePC   []string
	Models     map[string]bool
	Cross      map[string]int // cvc5 cross-check results by verdict
}

type Options struct {
	MaxSteps   int
	LoopBound  int
	MapOrders  int // 0 = all permutations, 1 = insertion+reverse, 2 = insertion only
	DelayBound int
	Seed       int64
	Tier       int
	CrossPct   int  // percentage of discharged (unsat) obligations re-asked of cvc5 (thorough: 100)
	Concrete   bool // selftest mode: no symbolic inputs expected
	NoPOR      bool // disable the invisible-segment partial-order reduction (development: VF_NOPOR=1)
}

type inputRec struct {
	name string
	typ  string
	term T
	kind numKind
	isB  bool
	isS  bool
}

type appRec struct {
	fn   string
	args []T
	ret  T
}

// Machine executes one path.
type Machine struct {
	P    *Program
	C    *smt.Ctx
	S    *smt.Solver
	Opt  Options
	Res  *RunResult
	name string // harness name

	pc     []T
	pcSet  map[T]bool
	prefix []Decision
	pos    int

	globals map[*ssa.Global]*Value
	nextID  int

	inputs  []inputRec
	apps    []appRec
	choices []int
	nameCnt map[string]int

	// goroutines
	gs              []*goroutine
	cur             *goroutine
	delays          int
	now             int64
	timers          []*timer
	conds           map[*Value]*condState
	numeralOf       map[T]string // numeral terms narrowed to a concrete string (degradeNumeral)
	numeralUnsigned map[T]bool
	timerObjs       map[*Value]*ChanObj // *time.Timer cell -> its channel
	mutexes         map[*Value]*mutexState
	wgs             map[*Value]*wgState
	pools           map[*Value]*poolState
	onces           map[*Value]bool
	syncMaps        map[*Value][]syncMapEntry
	aborted         bool
	inInit          bool
	settling        bool
	doneCh          chan struct{}

	quiesceWaiter   *goroutine
	quiesced        bool
	quiesceDeadline int64
	memPoints       bool
	monitor         func(p *Value, write bool)
	mon             *monitorState
	arrObjs         map[*Value]*ArrObj

	snapshots [][]snapCell
	logs      []string
	poolMode  int              // 1: sync.Pool as a LIFO cache (vfSetPoolMode)
	builders  map[*Value]Value // strings.Builder contents by address
	mapOrder  int
	mapFlip   int
	sched     []SchedEntry
	crossSeq  int
	baseG     int
}

type pathEnd struct {
	st  Status
	msg string
}

func (m *Machine) end(st Status, format string, a ...interface{}) {
	panic(pathEnd{st, fmt.Sprintf(format, a...)})
}

func (m *Machine) engineErr(format string, a ...interface{}) {
	panic(pathEnd{StEngineError, fmt.Sprintf(format, a...)})
}

func (m *Machine) newID() int { m.nextID++; return m.nextID }

// ---- path condition and forks ----

func (m *Machine) addPC(t T) {
	if t.IsTrue() {
		return
	}
	if m.pcSet[t] {
		return
	}
	m.pc = append(m.pc, t)
	m.pcSet[t] = true
	m.S.Assert(m.C, t)
}

func (m *Machine) feasible(lit T) bool {
	if lit.IsTrue() {
		return true
	}
	if lit.IsFalse() {
		return false
	}
	if m.pcSet[lit] {
		return true
	}
	if m.pcSet[m.C.Not(lit)] {
		return false
	}
	r := m.S.Check(m.C, lit)
	if r == smt.Unknown {
		m.Res.Unknown["fork-feasibility"]++
	}
	return r != smt.Unsat
}

// choose consumes one decision with n alternatives; feas(i) says whether alternative i is feasible
// (nil = all feasible). Returns the alternative taken.
func (m *Machine) choose(kind string, n int, feas func(i int) bool) int {
	if n == 1 {
		return 0
	}
	if m.pos < len(m.prefix) {
		d := m.prefix[m.pos]
		if d.Kind != kind || d.N >= n {
			m.engineErr("replay divergence at decision %d: want %s/%d, have %s (n=%d)", m.pos, d.Kind, d.N, kind, n)
		}
		m.pos++
		m.Res.Trace = append(m.Res.Trace, d)
		return d.N
	}
	first := -1
	var rest []int
	for i := 0; i < n; i++ {
		if feas == nil || feas(i) {
			if first < 0 {
				first = i
			} else {
				rest = append(rest, i)
			}
		}
	}
	if first < 0 {
		m.end(StInfeasible, "no feasible alternative at %s", kind)
	}
	base := append([]Decision(nil), m.Res.Trace...)
	for _, r := range rest {
		sib := append(append([]Decision(nil), base...), Decision{Kind: kind, N: r})
		m.Res.Siblings = append(m.Res.Siblings, sib)
	}
	m.Res.Trace = append(m.Res.Trace, Decision{Kind: kind, N: first})
	m.pos++
	m.Res.Forks[kind]++
	return first
}

// branch decides a symbolic condition, forking when both outcomes are feasible.
func (m *Machine) branch(c T) bool {
	if c.IsConst() {
		return c.Val == 1
	}
	if m.pcSet[c] {
		return true
	}
	nc := m.C.Not(c)
	if m.pcSet[nc] {
		return false
	}
	if m.pos < len(m.prefix) {
		// forced
		d := m.prefix[m.pos]
		if d.Kind != "br" {
			m.engineErr("replay divergence at decision %d: want %s, have br", m.pos, d.Kind)
		}
		m.pos++
		m.Res.Trace = append(m.Res.Trace, d)
		if d.N == 0 {
			m.addPC(c)
			return true
		}
		m.addPC(nc)
		return false
	}
	r := m.S.Check(m.C, c)
	if r == smt.Unsat {
		// not a fork: only the false branch is possible (recorded so that replays need no query)
		m.Res.Trace = append(m.Res.Trace, Decision{Kind: "br", N: 1})
		m.pos++
		m.addPC(nc)
		return false
	}
	if r == smt.Unknown {
		m.Res.Unknown["fork-feasibility"]++
	}
	r2 := m.S.Check(m.C, nc)
	if r2 == smt.Unsat {
		m.Res.Trace = append(m.Res.Trace, Decision{Kind: "br", N: 0})
		m.pos++
		m.addPC(c)
		return true
	}
	if r2 == smt.Unknown {
		m.Res.Unknown["fork-feasibility"]++
	}
	base := append([]Decision(nil), m.Res.Trace...)
	m.Res.Siblings = append(m.Res.Siblings, append(base, Decision{Kind: "br", N: 1}))
	m.Res.Trace = append(m.Res.Trace, Decision{Kind: "br", N: 0})
	m.pos++
	m.Res.Forks["br"]++
	m.addPC(c)
	return true
}

func inSet(v uint64, s []uint64) bool {
	for _, x := range s {
		if x == v {
			return true
		}
	}
	return false
}

// concretize forks over the feasible values of a BV term (model-driven); returns the value as int64 (signed view).
func (m *Machine) concretize(t T, signed bool) int64 {
	if t.IsConst() {
		if signed {
			return t.Int64()
		}
		return int64(t.Val)
	}
	w := t.S.W
	var excl []uint64
	if m.pos < len(m.prefix) {
		d := m.prefix[m.pos]
		if d.Kind != "conc" {
			m.engineErr("replay divergence at decision %d: want %s, have conc", m.pos, d.Kind)
		}
		if !d.Pick {
			m.pos++
			m.Res.Trace = append(m.Res.Trace, d)
			m.addPC(m.C.Eq(t, m.C.BVC(d.Val, w)))
			return smtSx(d.Val, w)
		}
		excl = d.Excl
		m.pos++
	} else {
		m.pos++
	}
	for _, e := range excl {
		m.addPC(m.C.Not(m.C.Eq(t, m.C.BVC(e, w))))
	}
	r, vals := m.S.CheckModel(m.C, nil, []T{t})
	if r != smt.Sat || len(vals) != 1 {
		m.end(StInfeasible, "concretize: no model (%v)", r)
	}
	v, ok := smt.ParseBV(vals[0])
	if !ok {
		m.engineErr("concretize: cannot parse %q", vals[0])
	}
	eq := m.C.Eq(t, m.C.BVC(v, w))
	// is there another value?
	if m.S.Check(m.C, m.C.Not(eq)) != smt.Unsat {
		base := append([]Decision(nil), m.Res.Trace...)
		ex := append(append([]uint64(nil), excl...), v)
		m.Res.Siblings = append(m.Res.Siblings, append(base, Decision{Kind: "conc", Pick: true, Excl: ex}))
		m.Res.Forks["conc"]++
	}
	m.Res.Trace = append(m.Res.Trace, Decision{Kind: "conc", Val: v})
	m.addPC(eq)
	return smtSx(v, w)
}

func smtSx(v uint64, w int) int64 {
	if w >= 64 {
		return int64(v)
	}
	if v&(1<<uint(w-1)) != 0 {
		return int64(v | ^((uint64(1) << uint(w)) - 1))
	}
	return int64(v)
}

// ---- assertions ----

func (m *Machine) assume(c T) {
	if c.IsTrue() {
		return
	}
	if c.IsFalse() || !m.feasible(c) {
		m.end(StAssumeFalse, "assumption false")
	}
	m.addPC(c)
}

// modelViolation asks for a model of PC ∧ extra; when sat, records a violation with the model.
func (m *Machine) modelViolation(label string, extra []T, pos, msg string) smt.Result {
	var want []T
	for _, in := range m.inputs {
		want = append(want, in.term)
	}
	for _, a := range m.apps {
		want = append(want, a.ret)
		want = append(want, a.args...)
	}
	r, vals := m.S.CheckModel(m.C, extra, want)
	if r == smt.Unknown {
		if d := os.Getenv("VF_DUMP_UNKNOWN"); d != "" {
			all := append(append([]T(nil), m.pc...), extra...)
			os.WriteFile(fmt.Sprintf("%s/%s-%s-%d.smt2", d, m.name, label, len(m.Res.Trace)), []byte(smt.Script(m.C, all, false)), 0o644)
		}
	}
	if r != smt.Sat {
		return r
	}
	v := Violation{Sched: append([]SchedEntry(nil), m.sched...), BaseG: m.baseG, Harness: m.name, Label: label, Pos: pos, Msg: msg, Decisions: append([]Decision(nil), m.Res.Trace...),
		Choices: append([]int(nil), m.choices...), Trace: append([]string(nil), m.logs...)}
	i := 0
	for _, in := range m.inputs {
		bits, _ := smt.ParseBV(vals[i])
		iv := InputVal{Name: in.name, Type: in.typ, Bits: bits}
		switch {
		case in.isS:
			iv.Val = vals[i]
		case in.isB:
			iv.Val = fmt.Sprint(bits == 1)
		case in.kind.float:
			iv.Val = fmt.Sprintf("bits:%#x", bits)
		case in.kind.signed:
			iv.Val = fmt.Sprint(smtSx(bits, in.kind.width))
		default:
			iv.Val = fmt.Sprint(bits)
		}
		v.Inputs = append(v.Inputs, iv)
		i++
	}
	for _, a := range m.apps {
		av := AppVal{Fn: a.fn}
		av.Ret, _ = smt.ParseBV(vals[i])
		i++
		for range a.args {
			b, _ := smt.ParseBV(vals[i])
			av.Args = append(av.Args, b)
			i++
		}
		v.Apps = append(v.Apps, av)
	}
	m.Res.Violations = append(m.Res.Violations, v)
	return r
}

func (m *Machine) assert(label string, c T, pos string) {
	if c.IsTrue() {
		m.Res.Asserts[label]++
		return
	}
	nc := m.C.Not(c)
	if m.pcSet[c] {
		m.Res.Asserts[label]++
		return
	}
	var extra []T
	if !nc.IsTrue() {
		extra = []T{nc}
	}
	switch m.modelViolation(label, extra, pos, "") {
	case smt.Unsat:
		if m.crossCheck(extra) {
			m.Res.Asserts[label]++
			m.Res.BySolver[label]++
		} else {
			m.Res.Unknown[label+" (z3 unsat, cvc5 sat: solver disagreement)"]++
		}
		m.addPC(c) // implied by the path condition: helps the simplifier, changes nothing
	case smt.Unknown:
		m.Res.Unknown[label]++
	case smt.Sat:
		// violated for some values: the path continues unconstrained so that every later
		// obligation is decided independently of this one
	}
}

var crossCounter int64

// crossCheck re-asks a discharged obligation of a second solver (cvc5, one-shot). Returns false only on a definite
// disagreement (cvc5 says sat); a cvc5 timeout / unknown is counted but does not change the verdict.
func (m *Machine) crossCheck(extra []T) bool {
	if m.Opt.CrossPct <= 0 {
		return true
	}
	if m.Opt.CrossPct < 100 {
		// every (100/pct)-th discharged obligation of the whole run
		n := atomic.AddInt64(&crossCounter, 1)
		if n%int64(100/m.Opt.CrossPct) != 0 {
			return true
		}
	}
	all := append(append([]T(nil), m.pc...), extra...)
	script := smt.Script(m.C, all, true)
	r, _ := smt.OneShot([]string{"cvc5", "--lang=smt2", "--fp-exp", "--strings-exp", "-q", "--tlimit=20000"}, script, 25*time.Second)
	m.Res.Cross[r.String()]++
	return r != smt.Sat
}

// ---- input creation ----

func (m *Machine) uniqueName(name string) string {
	k := m.nameCnt[name]
	m.nameCnt[name] = k + 1
	return fmt.Sprintf("%s#%d", name, k)
}

func (m *Machine) newInput(name string, typ string, k numKind) T {
	n := m.uniqueName(name)
	var t T
	if k.float {
		bits := m.C.Var(n, smt.BV(k.width))
		m.inputs = append(m.inputs, inputRec{name: n, typ: typ, term: bits, kind: k})
		return m.C.FpFromBits(bits)
	}
	t = m.C.Var(n, smt.BV(k.width))
	m.inputs = append(m.inputs, inputRec{name: n, typ: typ, term: t, kind: k})
	return t
}

func (m *Machine) newBoolInput(name string) T {
	n := m.uniqueName(name)
	t := m.C.Var(n, smt.Bool)
	m.inputs = append(m.inputs, inputRec{name: n, typ: "bool", term: t, isB: true})
	return t
}

// ---- program ----

type Program struct {
	Prog           *ssa.Program
	Fset           *token.FileSet
	Pkgs           map[string]*ssa.Package // by import path
	Main           *ssa.Package            // package under test (with harness overlay)
	InitPkgs       []*ssa.Package
	errorStringPtr types.Type
	rtypePtr       types.Type
	Instrumented   bool
	Points         map[int]string
	repoPkgs       map[*ssa.Package]bool
}

func (p *Program) posOf(pos token.Pos) string {
	if !pos.IsValid() {
		return ""
	}
	ps := p.Fset.Position(pos)
	f := ps.Filename
	if i := strings.LastIndex(f, "/"); i >= 0 {
		f = f[i+1:]
	}
	return fmt.Sprintf("%s:%d", f, ps.Line)
}

func sortedKeys(m map[string]int) []string {
	var ks []string
	for k := range m {
		ks = append(ks, k)
	}
	sort.Strings(ks)
	return ks
}
