package gosym

import (
	"fmt"
	"go/types"
	"math"
	"regexp"
	"strconv"
	"strings"

	"golang.org/x/tools/go/ssa"

	"verif/engine/smt"
)

type handler func(m *Machine, fr *frame, fn *ssa.Function, args []Value) Value

var intrinsics map[string]handler

func init() {
	intrinsics = map[string]handler{
		// ---- reflect ----
		"reflect.ValueOf":              hReflectValueOf,
		"reflect.TypeOf":               hReflectTypeOf,
		"reflect.Indirect":             hReflectIndirect,
		"reflect.New":                  hReflectNew,
		"reflect.DeepEqual":            hReflectDeepEqual,
		"(reflect.Value).Kind":         hRVKind,
		"(reflect.Value).IsNil":        hRVIsNil,
		"(reflect.Value).IsValid":      hRVIsValid,
		"(reflect.Value).Elem":         hRVElem,
		"(reflect.Value).Set":          hRVSet,
		"(reflect.Value).Interface":    hRVInterface,
		"(reflect.Value).Type":         hRVType,
		"(reflect.Value).FieldByName":  hRVFieldByName,
		"(reflect.Value).Len":          hRVLen,
		"(reflect.Value).IsZero":       hRVIsZero,
		"(reflect.Value).FieldByIndex": hRVFieldByIndex,
		"(reflect.Value).Field":        hRVField,
		"(reflect.Value).NumField":     hRVNumField,
		"(reflect.Value).String":       hRVString,
		"(reflect.Value).Int":          hRVInt,
		"(reflect.Value).Uint":         hRVUint,
		"(reflect.Value).Float":        hRVFloat,
		"(reflect.Value).Bool":         hRVBool,
		"(reflect.Value).CanInterface": hRVCanInterface,
		"(reflect.Kind).String":        func(m *Machine, fr *frame, fn *ssa.Function, a []Value) Value { return "kind" },
		// ---- sync ----
		"(*sync.Mutex).Lock":       hMutexLock,
		"(*sync.Mutex).Unlock":     hMutexUnlock,
		"(*sync.RWMutex).Lock":     hMutexLock,
		"(*sync.RWMutex).Unlock":   hMutexUnlock,
		"(*sync.RWMutex).RLock":    hRLock,
		"(*sync.Mutex).TryLock":    hMutexTryLock,
		"(*sync.RWMutex).TryLock":  hMutexTryLock,
		"(*sync.RWMutex).TryRLock": hTryRLock,
		"(*sync.Cond).Wait":        hCondWait,
		"(*sync.Cond).Signal":      hCondSignal,
		"(*sync.Cond).Broadcast":   hCondBroadcast,
		"(*sync.RWMutex).RUnlock":  hRUnlock,
		"(*sync.WaitGroup).Add":    hWGAdd,
		"(*sync.WaitGroup).Done":   hWGDone,
		"(*sync.WaitGroup).Wait":   hWGWait,
		"(*sync.Pool).Get":         hPoolGet,
		"(*sync.Pool).Put":         hPoolPut,
		"(*sync.Once).Do":          hOnceDo,
		// sync.Map: a linearizable key/value store (each method one atomic step)
		"(*sync.Map).Load":          hSyncMap,
		"(*sync.Map).Store":         hSyncMap,
		"(*sync.Map).LoadOrStore":   hSyncMap,
		"(*sync.Map).LoadAndDelete": hSyncMap,
		"(*sync.Map).Delete":        hSyncMap,
		"(*sync.Map).Swap":          hSyncMap,
		"(*sync.Map).Range":         hSyncMap,
		// ---- atomic ----
		"sync/atomic.LoadInt32":           hAtomicLoad,
		"sync/atomic.LoadInt64":           hAtomicLoad,
		"sync/atomic.LoadUint32":          hAtomicLoad,
		"sync/atomic.LoadUint64":          hAtomicLoad,
		"sync/atomic.StoreInt32":          hAtomicStore,
		"sync/atomic.StoreInt64":          hAtomicStore,
		"sync/atomic.StoreUint32":         hAtomicStore,
		"sync/atomic.StoreUint64":         hAtomicStore,
		"sync/atomic.AddInt32":            hAtomicAdd,
		"sync/atomic.AddInt64":            hAtomicAdd,
		"sync/atomic.AddUint32":           hAtomicAdd,
		"sync/atomic.AddUint64":           hAtomicAdd,
		"sync/atomic.CompareAndSwapInt32": hAtomicCAS,
		"sync/atomic.CompareAndSwapInt64": hAtomicCAS,
		// ---- time ----
		"time.Now": func(m *Machine, fr *frame, fn *ssa.Function, a []Value) Value { return m.timeNow() },
		"time.Sleep": func(m *Machine, fr *frame, fn *ssa.Function, a []Value) Value {
			m.sleep(m.concretize(a[0].(T), true))
			return nil
		},
		"time.After": func(m *Machine, fr *frame, fn *ssa.Function, a []Value) Value {
			return m.after(m.concretize(a[0].(T), true))
		},
		// time.NewTimer / (*Timer).Stop / Reset: the timer object is a real time.Timer value whose C is a virtual-time channel
		"time.NewTimer": func(m *Machine, fr *frame, fn *ssa.Function, a []Value) Value {
			pt := fn.Signature.Results().At(0).Type().(*types.Pointer)
			cell := new(Value)
			st := m.zero(pt.Elem()).(Struct)
			ch := m.after(m.concretize(a[0].(T), true))
			st[0] = ch
			*cell = st
			if m.timerObjs == nil {
				m.timerObjs = map[*Value]*ChanObj{}
			}
			m.timerObjs[cell] = ch
			return cell
		},
		"(*time.Timer).Stop": func(m *Machine, fr *frame, fn *ssa.Function, a []Value) Value {
			m.markVisible()
			ch := m.timerObjs[a[0].(*Value)]
			return m.C.BoolC(m.cancelTimer(ch))
		},
		"(*time.Timer).Reset": func(m *Machine, fr *frame, fn *ssa.Function, a []Value) Value {
			m.markVisible()
			ch := m.timerObjs[a[0].(*Value)]
			was := m.cancelTimer(ch)
			d := m.concretize(a[1].(T), true)
			t := &timer{when: m.now + d, ch: ch}
			if d <= 0 {
				t.when = m.now
			}
			m.timers = append(m.timers, t)
			return m.C.BoolC(was)
		},
		"time.Since": func(m *Machine, fr *frame, fn *ssa.Function, a []Value) Value {
			t := a[0].(Struct)
			return m.C.BvBin(smt.OBvSub, m.C.BVC(uint64(m.now), 64), t[1].(T))
		},
		"time.Until": func(m *Machine, fr *frame, fn *ssa.Function, a []Value) Value {
			t := a[0].(Struct)
			return m.C.BvBin(smt.OBvSub, t[1].(T), m.C.BVC(uint64(m.now), 64))
		},
		"(time.Time).Sub": func(m *Machine, fr *frame, fn *ssa.Function, a []Value) Value {
			return m.C.BvBin(smt.OBvSub, a[0].(Struct)[1].(T), a[1].(Struct)[1].(T))
		},
		"(time.Time).Add": func(m *Machine, fr *frame, fn *ssa.Function, a []Value) Value {
			t := copyVal(a[0]).(Struct)
			t[1] = m.C.BvBin(smt.OBvAdd, t[1].(T), a[1].(T))
			return t
		},
		"(time.Time).After": func(m *Machine, fr *frame, fn *ssa.Function, a []Value) Value {
			return m.C.BvCmp(smt.OBvSlt, a[1].(Struct)[1].(T), a[0].(Struct)[1].(T))
		},
		"(time.Time).Before": func(m *Machine, fr *frame, fn *ssa.Function, a []Value) Value {
			return m.C.BvCmp(smt.OBvSlt, a[0].(Struct)[1].(T), a[1].(Struct)[1].(T))
		},
		"(time.Time).UnixNano": func(m *Machine, fr *frame, fn *ssa.Function, a []Value) Value { return a[0].(Struct)[1] },
		"(time.Time).IsZero": func(m *Machine, fr *frame, fn *ssa.Function, a []Value) Value {
			return m.C.Eq(a[0].(Struct)[1].(T), m.C.BVC(0, 64))
		},
		// ---- math ----
		"math.Float64bits":     hFloatBits,
		"math.Float32bits":     hFloatBits,
		"math.Float64frombits": func(m *Machine, fr *frame, fn *ssa.Function, a []Value) Value { return m.C.FpFromBits(a[0].(T)) },
		"math.Float32frombits": func(m *Machine, fr *frame, fn *ssa.Function, a []Value) Value { return m.C.FpFromBits(a[0].(T)) },
		"math.Round":           func(m *Machine, fr *frame, fn *ssa.Function, a []Value) Value { return m.C.FpRound(a[0].(T), true) },
		"math.Trunc":           func(m *Machine, fr *frame, fn *ssa.Function, a []Value) Value { return m.C.FpRound(a[0].(T), false) },
		// ---- fmt / log / runtime ----
		"fmt.Sprintf": hSprintf,
		"fmt.Errorf": func(m *Machine, fr *frame, fn *ssa.Function, a []Value) Value {
			// %w: the result is a *fmt.wrapError (message + wrapped error), so that Unwrap / errors.Is see the chain
			if f, ok := a[0].(string); ok && strings.Count(f, "%w") == 1 {
				args := a[1].(Slice)
				k := strings.Count(f[:strings.Index(f, "%w")], "%") - 2*strings.Count(f[:strings.Index(f, "%w")], "%%")
				if fp := m.P.Prog.ImportedPackage("fmt"); fp != nil && fp.Type("wrapError") != nil && k >= 0 && k < args.Len {
					if wrapped, isErr := args.Arr.Elems[args.Off+k].(Iface); isErr && wrapped.T != nil {
						msg := m.sprintf(fr, strings.Replace(f, "%w", "%v", 1), args)
						cell := new(Value)
						*cell = Struct{msg, wrapped}
						return Iface{T: types.NewPointer(fp.Type("wrapError").Type()), V: cell}
					}
				}
			}
			return m.makeError(m.sprintf(fr, a[0], a[1].(Slice)))
		},
		// errors.Is / errors.Unwrap over the chain made by Unwrap() error methods (no Is methods, no multi-errors)
		"errors.Unwrap": func(m *Machine, fr *frame, fn *ssa.Function, a []Value) Value {
			next, _ := m.unwrapErr(fr, a[0].(Iface))
			return next
		},
		"errors.Is": func(m *Machine, fr *frame, fn *ssa.Function, a []Value) Value {
			err, target := a[0].(Iface), a[1].(Iface)
			if err.T == nil || target.T == nil {
				return m.C.BoolC(err.T == nil && target.T == nil)
			}
			var res T = m.C.False()
			for depth := 0; depth < 16 && err.T != nil; depth++ {
				if types.Identical(err.T, target.T) {
					res = m.C.Or(res, m.equals(fr, err, target))
				}
				next, ok := m.unwrapErr(fr, err)
				if !ok {
					break
				}
				err = next
			}
			return res
		},
		"fmt.Sprint": func(m *Machine, fr *frame, fn *ssa.Function, a []Value) Value {
			return m.sprintf(fr, nil, a[0].(Slice))
		},
		"fmt.Println":     hNop2,
		"fmt.Printf":      hNop2,
		"fmt.Print":       hNop2,
		"log.Printf":      hNop,
		"log.Println":     hNop,
		"log.Print":       hNop,
		"runtime.Stack":   func(m *Machine, fr *frame, fn *ssa.Function, a []Value) Value { return m.C.BVC(0, 64) },
		"runtime.Gosched": hNop,
		"errors.New":      func(m *Machine, fr *frame, fn *ssa.Function, a []Value) Value { return m.makeError(a[0]) },
		// ---- strconv / strings / regexp ----
		"strconv.Itoa": hItoa,
		// decimal renderings of symbolic integers are opaque numeral terms (the real formatBits divides by constants in a
		// loop: hopeless symbolically); other bases and concrete values go to the host
		"strconv.FormatInt": func(m *Machine, fr *frame, fn *ssa.Function, a []Value) Value {
			v, base := a[0].(T), m.concretize(a[1].(T), true)
			if v.IsConst() {
				return strconv.FormatInt(v.Int64(), int(base))
			}
			if base != 10 {
				m.end(StEngineError, "unmodelled: strconv.FormatInt of a symbolic value in base %d", base)
			}
			return m.C.App("numstr", smt.Str, v)
		},
		"strconv.FormatUint": func(m *Machine, fr *frame, fn *ssa.Function, a []Value) Value {
			v, base := a[0].(T), m.concretize(a[1].(T), true)
			if v.IsConst() {
				return strconv.FormatUint(v.Val, int(base))
			}
			if base != 10 {
				m.end(StEngineError, "unmodelled: strconv.FormatUint of a symbolic value in base %d", base)
			}
			return m.C.App("unumstr", smt.Str, v)
		},
		"strconv.FormatBool": func(m *Machine, fr *frame, fn *ssa.Function, a []Value) Value {
			b := a[0].(T)
			if b.IsConst() {
				return strconv.FormatBool(b.Val != 0)
			}
			return m.C.Ite(b, m.C.StrC("true"), m.C.StrC("false"))
		},
		"strconv.Atoi":       hAtoi,
		"strconv.ParseInt":   hParseInt,
		"strconv.ParseUint":  hParseUint,
		"strconv.ParseFloat": hParseFloat,
		"strconv.ParseBool":  hParseBool,
		"strings.Compare":    hStringsCompare,
		"strings.ReplaceAll": hReplaceAll,
		"strings.Contains": func(m *Machine, fr *frame, fn *ssa.Function, a []Value) Value {
			return m.C.BoolC(strings.Contains(m.concStr(a[0]), m.concStr(a[1])))
		},
		"strings.ToUpper": func(m *Machine, fr *frame, fn *ssa.Function, a []Value) Value {
			return strings.ToUpper(m.concStr(a[0]))
		},
		"strings.ToLower": func(m *Machine, fr *frame, fn *ssa.Function, a []Value) Value {
			return strings.ToLower(m.concStr(a[0]))
		},
		"regexp.MatchString": hRegexpMatch,
		// a compiled expression is an opaque token holding its (concrete) source text; matching goes through the host
		"regexp.Compile": func(m *Machine, fr *frame, fn *ssa.Function, a []Value) Value {
			src, ok := a[0].(string)
			if !ok {
				m.end(StEngineError, "unmodelled: regexp.Compile of a symbolic expression")
			}
			if _, err := regexp.Compile(src); err != nil {
				var nilRe *Value
				return Tuple{nilRe, m.hostErr(err)}
			}
			p := new(Value)
			*p = Struct{"regexp:" + src}
			return Tuple{p, Iface{}}
		},
		"regexp.MustCompile": func(m *Machine, fr *frame, fn *ssa.Function, a []Value) Value {
			src, ok := a[0].(string)
			if !ok {
				m.end(StEngineError, "unmodelled: regexp.MustCompile of a symbolic expression")
			}
			if _, err := regexp.Compile(src); err != nil {
				m.reflectPanic(fr, "regexp: Compile(%s): %s", strconv.Quote(src), err.Error())
			}
			p := new(Value)
			*p = Struct{"regexp:" + src}
			return p
		},
		"(*regexp.Regexp).MatchString": func(m *Machine, fr *frame, fn *ssa.Function, a []Value) Value {
			p, _ := a[0].(*Value)
			if p == nil {
				m.runtimePanic(fr, "invalid memory address or nil pointer dereference (nil *regexp.Regexp)")
			}
			src := strings.TrimPrefix((*p).(Struct)[0].(string), "regexp:")
			r := hRegexpMatch(m, fr, fn, []Value{src, a[1]}).(Tuple)
			return r[0]
		},
		"(*regexp.Regexp).String": func(m *Machine, fr *frame, fn *ssa.Function, a []Value) Value {
			p, _ := a[0].(*Value)
			if p == nil {
				m.runtimePanic(fr, "invalid memory address or nil pointer dereference (nil *regexp.Regexp)")
			}
			return strings.TrimPrefix((*p).(Struct)[0].(string), "regexp:")
		},
		"strings.Join": func(m *Machine, fr *frame, fn *ssa.Function, a []Value) Value {
			sl := a[0].(Slice)
			parts := make([]string, sl.Len)
			for i := range parts {
				parts[i] = m.concStr(sl.Arr.Elems[sl.Off+i])
			}
			return strings.Join(parts, m.concStr(a[1]))
		},
		"strings.HasPrefix": func(m *Machine, fr *frame, fn *ssa.Function, a []Value) Value {
			return m.C.BoolC(strings.HasPrefix(m.concStr(a[0]), m.concStr(a[1])))
		},
		"strings.HasSuffix": func(m *Machine, fr *frame, fn *ssa.Function, a []Value) Value {
			return m.C.BoolC(strings.HasSuffix(m.concStr(a[0]), m.concStr(a[1])))
		},
		"strings.Index": func(m *Machine, fr *frame, fn *ssa.Function, a []Value) Value {
			return m.C.BVC(uint64(int64(strings.Index(m.concStr(a[0]), m.concStr(a[1])))), 64)
		},
		"strings.TrimSpace": func(m *Machine, fr *frame, fn *ssa.Function, a []Value) Value {
			return strings.TrimSpace(m.concStr(a[0]))
		},
		// more of package strings, evaluated by the host on concrete strings (concStr narrows a numeral term first)
		"strings.IndexByte": func(m *Machine, fr *frame, fn *ssa.Function, a []Value) Value {
			return m.C.BVC(uint64(int64(strings.IndexByte(m.concStr(a[0]), byte(m.concretize(a[1].(T), false))))), 64)
		},
		"strings.LastIndexByte": func(m *Machine, fr *frame, fn *ssa.Function, a []Value) Value {
			return m.C.BVC(uint64(int64(strings.LastIndexByte(m.concStr(a[0]), byte(m.concretize(a[1].(T), false))))), 64)
		},
		"strings.IndexRune": func(m *Machine, fr *frame, fn *ssa.Function, a []Value) Value {
			return m.C.BVC(uint64(int64(strings.IndexRune(m.concStr(a[0]), rune(m.concretize(a[1].(T), true))))), 64)
		},
		"strings.LastIndex": func(m *Machine, fr *frame, fn *ssa.Function, a []Value) Value {
			return m.C.BVC(uint64(int64(strings.LastIndex(m.concStr(a[0]), m.concStr(a[1])))), 64)
		},
		"strings.IndexAny": func(m *Machine, fr *frame, fn *ssa.Function, a []Value) Value {
			return m.C.BVC(uint64(int64(strings.IndexAny(m.concStr(a[0]), m.concStr(a[1])))), 64)
		},
		"strings.ContainsAny": func(m *Machine, fr *frame, fn *ssa.Function, a []Value) Value {
			return m.C.BoolC(strings.ContainsAny(m.concStr(a[0]), m.concStr(a[1])))
		},
		"strings.ContainsRune": func(m *Machine, fr *frame, fn *ssa.Function, a []Value) Value {
			return m.C.BoolC(strings.ContainsRune(m.concStr(a[0]), rune(m.concretize(a[1].(T), true))))
		},
		"strings.Count": func(m *Machine, fr *frame, fn *ssa.Function, a []Value) Value {
			return m.C.BVC(uint64(int64(strings.Count(m.concStr(a[0]), m.concStr(a[1])))), 64)
		},
		"strings.TrimPrefix": func(m *Machine, fr *frame, fn *ssa.Function, a []Value) Value {
			return strings.TrimPrefix(m.concStr(a[0]), m.concStr(a[1]))
		},
		"strings.TrimSuffix": func(m *Machine, fr *frame, fn *ssa.Function, a []Value) Value {
			return strings.TrimSuffix(m.concStr(a[0]), m.concStr(a[1]))
		},
		"strings.Trim": func(m *Machine, fr *frame, fn *ssa.Function, a []Value) Value {
			return strings.Trim(m.concStr(a[0]), m.concStr(a[1]))
		},
		"strings.Repeat": func(m *Machine, fr *frame, fn *ssa.Function, a []Value) Value {
			return strings.Repeat(m.concStr(a[0]), int(m.concretize(a[1].(T), true)))
		},
		"strings.EqualFold": func(m *Machine, fr *frame, fn *ssa.Function, a []Value) Value {
			return m.C.BoolC(strings.EqualFold(m.concStr(a[0]), m.concStr(a[1])))
		},
		// strings.Builder: the accumulated text is the builder struct's model state (a concrete string or a String term)
		"(*strings.Builder).Grow":  func(m *Machine, fr *frame, fn *ssa.Function, a []Value) Value { return nil },
		"(*strings.Builder).Reset": func(m *Machine, fr *frame, fn *ssa.Function, a []Value) Value { m.builderSet(a[0], ""); return nil },
		"(*strings.Builder).Len": func(m *Machine, fr *frame, fn *ssa.Function, a []Value) Value {
			return m.C.BVC(uint64(len(m.concStr(m.builderGet(a[0])))), 64)
		},
		"(*strings.Builder).String": func(m *Machine, fr *frame, fn *ssa.Function, a []Value) Value { return m.builderGet(a[0]) },
		"(*strings.Builder).WriteString": func(m *Machine, fr *frame, fn *ssa.Function, a []Value) Value {
			m.builderSet(a[0], m.strConcat(m.builderGet(a[0]), a[1]))
			return Tuple{m.C.BVC(uint64(len(m.concStr(a[1]))), 64), Iface{}}
		},
		"(*strings.Builder).WriteByte": func(m *Machine, fr *frame, fn *ssa.Function, a []Value) Value {
			m.builderSet(a[0], m.strConcat(m.builderGet(a[0]), string([]byte{byte(m.concretize(a[1].(T), false))})))
			return Iface{}
		},
		"(*strings.Builder).WriteRune": func(m *Machine, fr *frame, fn *ssa.Function, a []Value) Value {
			r := string(rune(m.concretize(a[1].(T), true)))
			m.builderSet(a[0], m.strConcat(m.builderGet(a[0]), r))
			return Tuple{m.C.BVC(uint64(len(r)), 64), Iface{}}
		},
		// ---- sort ----
		"sort.SliceStable":   hSortSliceStable,
		"sort.Slice":         hSortSliceAny,
		"sort.SliceIsSorted": hSortSliceIsSorted,
	}
}

func hNop(m *Machine, fr *frame, fn *ssa.Function, a []Value) Value { return nil }
func hNop2(m *Machine, fr *frame, fn *ssa.Function, a []Value) Value {
	return Tuple{m.C.BVC(0, 64), Iface{}}
}

func (m *Machine) intrinsic(fn *ssa.Function, name string) (handler, bool) {
	if h, ok := intrinsics[name]; ok {
		return h, true
	}
	if strings.HasPrefix(name, "(*testing.") {
		return hTestingT, true
	}
	if fn.Pkg != nil && fn.Pkg == m.P.Main || fn.Pkg != nil && m.P.isHarnessPkg(fn.Pkg) {
		if strings.HasPrefix(fn.Name(), "vf") {
			if h, ok := vfIntrinsics[fn.Name()]; ok {
				return h, true
			}
		}
	}
	return nil, false
}

// ---- errors ----

func (m *Machine) makeError(msg Value) Value {
	p := new(Value)
	*p = Struct{msg}
	return Iface{T: m.P.errorStringPtr, V: p}
}

func (p *Program) runtimeErrType() types.Type { return p.errorStringPtr }

func (m *Machine) concStr(v Value) string {
	s, ok := v.(string)
	if !ok {
		if d, ok := m.degradeNumeral(v); ok {
			return d
		}
		m.engineErr("symbolic string where a concrete one is required")
	}
	return s
}

// numeralBoundaries: the values a numeral string is narrowed to when code under test looks INSIDE the string (length,
// characters, trimming, slicing), which the opaque numeral term cannot express. Every bound of every integer type and
// its neighbours, plus a few ordinary values.
var numeralBoundaries = func() []int64 {
	out := []int64{0, 1, -1, 7, 42, -42}
	for _, b := range []uint{7, 8, 15, 16, 31, 32, 62} {
		p := int64(1) << b
		out = append(out, p-1, p, p+1, -p-1, -p, -p+1)
	}
	return append(out, math.MaxInt64, math.MaxInt64-1, math.MinInt64, math.MinInt64+1)
}()

// degradeNumeral: v is the decimal numeral of a symbolic integer and the program needs its characters. The integer is
// narrowed to one of the boundary values (a fork per value, memoised per term so that every use agrees); the run is
// marked DEGRADED for that input: the verdict then covers those numerals only, which the check reports as a NOTE.
func (m *Machine) degradeNumeral(v Value) (string, bool) {
	t, ok := v.(T)
	if !ok || t.Op != smt.OApp || (t.Name != "numstr" && t.Name != "itoa") || len(t.Args) != 1 {
		return "", false
	}
	if m.numeralOf == nil {
		m.numeralOf = map[T]string{}
	}
	if s, ok := m.numeralOf[t]; ok {
		return s, true
	}
	n := t.Args[0]
	k := m.choose("numeral", len(numeralBoundaries), nil)
	val := numeralBoundaries[k]
	m.assume(m.C.Eq(n, m.C.BVC(uint64(val), n.S.W)))
	var s string
	if n.S.W == 64 && t.Name == "numstr" && m.numeralUnsigned[t] {
		s = strconv.FormatUint(uint64(val), 10)
	} else {
		s = strconv.FormatInt(val, 10)
	}
	m.numeralOf[t] = s
	m.Res.Degraded["numeral narrowed to boundary values (the code inspects the string's characters)"]++
	return s, true
}

// ---- reflect ----

func kindOf(t types.Type) uint64 {
	switch u := t.Underlying().(type) {
	case *types.Basic:
		switch u.Kind() {
		case types.Bool:
			return 1
		case types.Int:
			return 2
		case types.Int8:
			return 3
		case types.Int16:
			return 4
		case types.Int32:
			return 5
		case types.Int64:
			return 6
		case types.Uint:
			return 7
		case types.Uint8:
			return 8
		case types.Uint16:
			return 9
		case types.Uint32:
			return 10
		case types.Uint64:
			return 11
		case types.Uintptr:
			return 12
		case types.Float32:
			return 13
		case types.Float64:
			return 14
		case types.Complex64:
			return 15
		case types.Complex128:
			return 16
		case types.String:
			return 24
		case types.UnsafePointer:
			return 26
		}
	case *types.Array:
		return 17
	case *types.Chan:
		return 18
	case *types.Signature:
		return 19
	case *types.Interface:
		return 20
	case *types.Map:
		return 21
	case *types.Pointer:
		return 22
	case *types.Slice:
		return 23
	case *types.Struct:
		return 25
	}
	return 0
}

func hReflectValueOf(m *Machine, fr *frame, fn *ssa.Function, a []Value) Value {
	i := a[0].(Iface)
	if i.T == nil {
		return RValue{}
	}
	return RValue{T: i.T, V: i.V, Valid: true}
}

func (m *Machine) rtypeIface(t types.Type) Value {
	return Iface{T: m.P.rtypePtr, V: RType{T: t}}
}

func hReflectTypeOf(m *Machine, fr *frame, fn *ssa.Function, a []Value) Value {
	i := a[0].(Iface)
	if i.T == nil {
		return Iface{}
	}
	return m.rtypeIface(i.T)
}

func (m *Machine) rvElem(fr *frame, v RValue) RValue {
	if !v.Valid {
		m.reflectPanic(fr, "reflect: call of reflect.Value.Elem on zero Value")
	}
	switch u := v.T.Underlying().(type) {
	case *types.Pointer:
		p := v.V.(*Value)
		if p == nil {
			return RValue{}
		}
		return RValue{T: u.Elem(), V: load(p), Addr: p, Valid: true}
	case *types.Interface:
		i := v.V.(Iface)
		if i.T == nil {
			return RValue{}
		}
		return RValue{T: i.T, V: i.V, Valid: true}
	}
	m.reflectPanic(fr, "reflect: call of reflect.Value.Elem on %s Value", v.T)
	return RValue{}
}

func (m *Machine) reflectPanic(fr *frame, format string, a ...interface{}) {
	msg := fmt.Sprintf(format, a...)
	panic(&goPanic{val: m.makeError(msg), pos: fr.curPos})
}

func hReflectIndirect(m *Machine, fr *frame, fn *ssa.Function, a []Value) Value {
	v := a[0].(RValue)
	if !v.Valid {
		return v
	}
	if _, ok := v.T.Underlying().(*types.Pointer); !ok {
		return v
	}
	return m.rvElem(fr, v)
}

func hReflectNew(m *Machine, fr *frame, fn *ssa.Function, a []Value) Value {
	ti := a[0].(Iface)
	if ti.T == nil {
		m.reflectPanic(fr, "reflect: New(nil)")
	}
	t := ti.V.(RType).T
	p := new(Value)
	*p = m.zero(t)
	return RValue{T: types.NewPointer(t), V: p, Valid: true}
}

func hRVKind(m *Machine, fr *frame, fn *ssa.Function, a []Value) Value {
	v := a[0].(RValue)
	if !v.Valid {
		return m.C.BVC(0, 64)
	}
	return m.C.BVC(kindOf(v.T), 64)
}

func hRVIsValid(m *Machine, fr *frame, fn *ssa.Function, a []Value) Value {
	return m.C.BoolC(a[0].(RValue).Valid)
}

// isZeroVal: v (of static type t) equals the zero value of t - reflect.Value.IsZero, as a (possibly symbolic) Bool.
func (m *Machine) isZeroVal(fr *frame, t types.Type, v Value) T {
	switch u := t.Underlying().(type) {
	case *types.Struct:
		r := m.C.BoolC(true)
		s := v.(Struct)
		for i := 0; i < u.NumFields(); i++ {
			r = m.C.And(r, m.isZeroVal(fr, u.Field(i).Type(), s[i]))
		}
		return r
	case *types.Array:
		r := m.C.BoolC(true)
		for _, e := range v.(Array) {
			r = m.C.And(r, m.isZeroVal(fr, u.Elem(), e))
		}
		return r
	case *types.Pointer, *types.Slice, *types.Map, *types.Chan, *types.Signature, *types.Interface:
		return m.C.BoolC(m.isNilObject(v) || isNilRef(v))
	}
	return m.equals(fr, v, m.zero(t))
}

func isNilRef(v Value) bool {
	switch x := v.(type) {
	case *Value:
		return x == nil
	case Slice:
		return x.Arr == nil
	case *MapObj:
		return x == nil
	case *ChanObj:
		return x == nil
	case Iface:
		return x.T == nil
	case nil:
		return true
	}
	return isNilFunc(v)
}

func hRVIsZero(m *Machine, fr *frame, fn *ssa.Function, a []Value) Value {
	v := a[0].(RValue)
	if !v.Valid {
		m.reflectPanic(fr, "reflect: call of reflect.Value.IsZero on zero Value")
	}
	return m.isZeroVal(fr, v.T, v.V)
}

func (m *Machine) rvField(fr *frame, v RValue, i int, what string) RValue {
	st, ok := v.T.Underlying().(*types.Struct)
	if !ok || !v.Valid {
		m.reflectPanic(fr, "reflect: call of reflect.Value.%s on %v Value", what, v.T)
	}
	if i < 0 || i >= st.NumFields() {
		m.reflectPanic(fr, "reflect: Field index out of range")
	}
	f := st.Field(i)
	r := RValue{T: f.Type(), V: copyVal(v.V.(Struct)[i]), Valid: true, RO: v.RO || !f.Exported()}
	if v.Addr != nil {
		as := (*v.Addr).(Struct)
		r.Addr = &as[i]
	}
	return r
}

func hRVField(m *Machine, fr *frame, fn *ssa.Function, a []Value) Value {
	return m.rvField(fr, a[0].(RValue), int(m.concretize(a[1].(T), true)), "Field")
}

func hRVNumField(m *Machine, fr *frame, fn *ssa.Function, a []Value) Value {
	v := a[0].(RValue)
	st, ok := v.T.Underlying().(*types.Struct)
	if !ok {
		m.reflectPanic(fr, "reflect: call of reflect.Value.NumField on %v Value", v.T)
	}
	return m.C.BVC(uint64(st.NumFields()), 64)
}

func hRVFieldByIndex(m *Machine, fr *frame, fn *ssa.Function, a []Value) Value {
	v := a[0].(RValue)
	ix := a[1].(Slice)
	for k := 0; k < ix.Len; k++ {
		i := int(m.concretize(ix.Arr.Elems[ix.Off+k].(T), true))
		if k > 0 {
			// step through a pointer to an embedded struct
			if pv, ok := v.V.(*Value); ok {
				if pv == nil {
					m.reflectPanic(fr, "reflect: indirection through nil pointer to embedded struct")
				}
				v = RValue{T: v.T.Underlying().(*types.Pointer).Elem(), V: copyVal(*pv), Valid: true, Addr: pv, RO: v.RO}
			}
		}
		v = m.rvField(fr, v, i, "FieldByIndex")
	}
	return v
}

func hRVIsNil(m *Machine, fr *frame, fn *ssa.Function, a []Value) Value {
	v := a[0].(RValue)
	if !v.Valid {
		m.reflectPanic(fr, "reflect: call of reflect.Value.IsNil on zero Value")
	}
	switch x := v.V.(type) {
	case *Value:
		return m.C.BoolC(x == nil)
	case Slice:
		return m.C.BoolC(x.Arr == nil)
	case *MapObj:
		return m.C.BoolC(x == nil)
	case *ChanObj:
		return m.C.BoolC(x == nil)
	case Iface:
		return m.C.BoolC(x.T == nil)
	case *Closure, *ssa.Function, nil:
		if k := kindOf(v.T); k == 19 {
			return m.C.BoolC(isNilFunc(v.V))
		}
	}
	m.reflectPanic(fr, "reflect: call of reflect.Value.IsNil on %s Value", v.T)
	return nil
}

func hRVElem(m *Machine, fr *frame, fn *ssa.Function, a []Value) Value {
	return m.rvElem(fr, a[0].(RValue))
}

func hRVSet(m *Machine, fr *frame, fn *ssa.Function, a []Value) Value {
	v := a[0].(RValue)
	x := a[1].(RValue)
	if !v.Valid || v.Addr == nil {
		m.reflectPanic(fr, "reflect: reflect.Value.Set using unaddressable value")
	}
	if !x.Valid {
		m.reflectPanic(fr, "reflect: call of reflect.Value.Set on zero Value")
	}
	if _, isI := v.T.Underlying().(*types.Interface); isI {
		if _, xi := x.T.Underlying().(*types.Interface); xi {
			store(v.Addr, x.V)
		} else {
			store(v.Addr, Iface{T: x.T, V: x.V})
		}
		return nil
	}
	if !types.AssignableTo(x.T, v.T) {
		m.reflectPanic(fr, "reflect.Set: value of type %s is not assignable to type %s", x.T, v.T)
	}
	store(v.Addr, x.V)
	return nil
}

func hRVInterface(m *Machine, fr *frame, fn *ssa.Function, a []Value) Value {
	v := a[0].(RValue)
	if !v.Valid {
		m.reflectPanic(fr, "reflect: call of reflect.Value.Interface on zero Value")
	}
	if v.RO {
		m.reflectPanic(fr, "reflect.Value.Interface: cannot return value obtained from unexported field or method")
	}
	if _, isI := v.T.Underlying().(*types.Interface); isI {
		return v.V
	}
	return Iface{T: v.T, V: copyVal(v.V)}
}

func hRVType(m *Machine, fr *frame, fn *ssa.Function, a []Value) Value {
	v := a[0].(RValue)
	if !v.Valid {
		m.reflectPanic(fr, "reflect: call of reflect.Value.Type on zero Value")
	}
	return m.rtypeIface(v.T)
}

// scalar accessors: the value converted (by the interpreter's own conversion rules) to the accessor's result type
func (m *Machine) rvScalar(fr *frame, a []Value, method string, dst types.Type, accept func(k uint64) bool) Value {
	v := a[0].(RValue)
	if !v.Valid {
		m.reflectPanic(fr, "reflect: call of reflect.Value.%s on zero Value", method)
	}
	if !accept(kindOf(v.T)) {
		m.reflectPanic(fr, "reflect: call of reflect.Value.%s on %s Value", method, v.T)
	}
	return m.conv(fr, dst, v.T.Underlying(), copyVal(v.V))
}

func hRVInt(m *Machine, fr *frame, fn *ssa.Function, a []Value) Value {
	return m.rvScalar(fr, a, "Int", types.Typ[types.Int64], func(k uint64) bool { return k >= 2 && k <= 6 })
}
func hRVUint(m *Machine, fr *frame, fn *ssa.Function, a []Value) Value {
	return m.rvScalar(fr, a, "Uint", types.Typ[types.Uint64], func(k uint64) bool { return k >= 7 && k <= 12 })
}
func hRVFloat(m *Machine, fr *frame, fn *ssa.Function, a []Value) Value {
	return m.rvScalar(fr, a, "Float", types.Typ[types.Float64], func(k uint64) bool { return k == 13 || k == 14 })
}
func hRVBool(m *Machine, fr *frame, fn *ssa.Function, a []Value) Value {
	return m.rvScalar(fr, a, "Bool", types.Typ[types.Bool], func(k uint64) bool { return k == 1 })
}

// Value.String: the string itself for a String kind; "<T Value>" otherwise (it never panics)
func hRVString(m *Machine, fr *frame, fn *ssa.Function, a []Value) Value {
	v := a[0].(RValue)
	if !v.Valid {
		return "<invalid Value>"
	}
	if kindOf(v.T) == 24 {
		return copyVal(v.V)
	}
	return "<" + types.TypeString(v.T, nil) + " Value>"
}

func hRVCanInterface(m *Machine, fr *frame, fn *ssa.Function, a []Value) Value {
	v := a[0].(RValue)
	if !v.Valid {
		m.reflectPanic(fr, "reflect: call of reflect.Value.CanInterface on zero Value")
	}
	return m.C.BoolC(!v.RO)
}

func hRVLen(m *Machine, fr *frame, fn *ssa.Function, a []Value) Value {
	v := a[0].(RValue)
	return m.C.BVC(uint64(m.lenOf(v.V)), 64)
}

func hRVFieldByName(m *Machine, fr *frame, fn *ssa.Function, a []Value) Value {
	v := a[0].(RValue)
	name := m.concStr(a[1])
	if !v.Valid {
		m.reflectPanic(fr, "reflect: call of reflect.Value.FieldByName on zero Value")
	}
	st, ok := v.T.Underlying().(*types.Struct)
	if !ok {
		m.reflectPanic(fr, "reflect: call of reflect.Value.FieldByName on %s Value", v.T)
	}
	s := v.V.(Struct)
	for i := 0; i < st.NumFields(); i++ {
		f := st.Field(i)
		if f.Name() == name {
			r := RValue{T: f.Type(), V: copyVal(s[i]), Valid: true, RO: v.RO || !f.Exported()}
			if v.Addr != nil {
				as := (*v.Addr).(Struct)
				r.Addr = &as[i]
			}
			return r
		}
	}
	// embedded promoted fields (one level)
	for i := 0; i < st.NumFields(); i++ {
		f := st.Field(i)
		if f.Embedded() {
			if est, ok := f.Type().Underlying().(*types.Struct); ok {
				es := s[i].(Struct)
				for j := 0; j < est.NumFields(); j++ {
					if est.Field(j).Name() == name {
						return RValue{T: est.Field(j).Type(), V: copyVal(es[j]), Valid: true, RO: v.RO || !est.Field(j).Exported()}
					}
				}
			}
		}
	}
	return RValue{}
}

func hReflectDeepEqual(m *Machine, fr *frame, fn *ssa.Function, a []Value) Value {
	m.engineErr("reflect.DeepEqual not modelled")
	return nil
}

type rtypeMethod struct {
	name string
	t    RType
}

func (m *Machine) callRTypeMethod(fr *frame, f *rtypeMethod, args []Value) Value {
	switch f.name {
	case "Kind":
		return m.C.BVC(kindOf(f.t.T), 64)
	case "String":
		return f.t.T.String()
	case "Name":
		if n, ok := f.t.T.(*types.Named); ok {
			return n.Obj().Name()
		}
		if b, ok := f.t.T.(*types.Basic); ok {
			return b.Name()
		}
		return ""
	case "Elem":
		switch u := f.t.T.Underlying().(type) {
		case *types.Pointer:
			return m.rtypeIface(u.Elem())
		case *types.Slice:
			return m.rtypeIface(u.Elem())
		case *types.Array:
			return m.rtypeIface(u.Elem())
		case *types.Map:
			return m.rtypeIface(u.Elem())
		case *types.Chan:
			return m.rtypeIface(u.Elem())
		}
		m.reflectPanic(fr, "reflect: Elem of invalid type %s", f.t.T)
	}
	switch f.name {
	case "NumField":
		if st, ok := f.t.T.Underlying().(*types.Struct); ok {
			return m.C.BVC(uint64(st.NumFields()), 64)
		}
		m.reflectPanic(fr, "reflect: NumField of non-struct type %s", f.t.T)
	case "FieldByName", "Field":
		st, ok := f.t.T.Underlying().(*types.Struct)
		if !ok {
			m.reflectPanic(fr, "reflect: %s of non-struct type %s", f.name, f.t.T)
		}
		sfT := m.P.Pkgs["reflect"].Type("StructField").Type()
		mk := func(i int) Value {
			fld := st.Field(i)
			sf := m.zero(sfT).(Struct)
			m.setField(sf, sfT, "Name", fld.Name())
			m.setField(sf, sfT, "Type", m.rtypeIface(fld.Type()))
			m.setField(sf, sfT, "Anonymous", m.C.BoolC(fld.Embedded()))
			if !fld.Exported() && fld.Pkg() != nil {
				m.setField(sf, sfT, "PkgPath", fld.Pkg().Path())
			}
			arr := &ArrObj{ID: m.newID(), Elems: []Value{m.C.BVC(uint64(i), 64)}}
			m.setField(sf, sfT, "Index", Slice{Arr: arr, Off: 0, Len: 1, Cap: 1})
			return sf
		}
		if f.name == "Field" {
			i := int(m.concretize(args[0].(T), true))
			if i < 0 || i >= st.NumFields() {
				m.reflectPanic(fr, "reflect: Field index out of bounds")
			}
			return mk(i)
		}
		name := m.concStr(args[0])
		for i := 0; i < st.NumFields(); i++ {
			if st.Field(i).Name() == name {
				return Tuple{mk(i), m.C.BoolC(true)}
			}
		}
		return Tuple{m.zero(sfT), m.C.BoolC(false)}
	}
	m.engineErr("reflect.Type method %s not modelled", f.name)
	return nil
}

// ---- sync ----

func (m *Machine) mutexOf(p *Value) *mutexState {
	s := m.mutexes[p]
	if s == nil {
		s = &mutexState{}
		m.mutexes[p] = s
	}
	return s
}

func hMutexLock(m *Machine, fr *frame, fn *ssa.Function, a []Value) Value {
	p := a[0].(*Value)
	m.yield("lock")
	s := m.mutexOf(p)
	if s.writer || s.readers > 0 {
		m.blockUntil("Lock", func() bool { return !s.writer && s.readers == 0 })
	}
	s.writer = true
	s.owner = m.cur
	return nil
}

// TryLock / TryRLock: succeed exactly when the lock is free at this moment (never block). The real implementation may
// also fail spuriously under contention only in the sense of losing a race that this model orders explicitly.
func hMutexTryLock(m *Machine, fr *frame, fn *ssa.Function, a []Value) Value {
	p := a[0].(*Value)
	m.yield("lock")
	s := m.mutexOf(p)
	if s.writer || s.readers > 0 {
		return m.C.BoolC(false)
	}
	s.writer = true
	s.owner = m.cur
	return m.C.BoolC(true)
}

func hTryRLock(m *Machine, fr *frame, fn *ssa.Function, a []Value) Value {
	p := a[0].(*Value)
	m.yield("rlock")
	s := m.mutexOf(p)
	if s.writer {
		return m.C.BoolC(false)
	}
	s.readers++
	return m.C.BoolC(true)
}

// sync.Cond: Wait releases c.L, parks until a Signal/Broadcast issued after it started waiting, re-acquires c.L.
func (m *Machine) condOf(p *Value) *condState {
	if m.conds == nil {
		m.conds = map[*Value]*condState{}
	}
	c := m.conds[p]
	if c == nil {
		c = &condState{}
		m.conds[p] = c
	}
	return c
}

func (m *Machine) condLocker(fr *frame, p *Value) Iface {
	st := (*p).(Struct)
	// type Cond struct { noCopy; L Locker; notify notifyList; checker copyChecker }
	for _, f := range st {
		if i, ok := f.(Iface); ok {
			return i
		}
	}
	m.engineErr("sync.Cond without a Locker")
	return Iface{}
}

func (m *Machine) callLockerMethod(fr *frame, l Iface, name string) {
	if l.T == nil {
		m.runtimePanic(fr, "invalid memory address or nil pointer dereference (nil Locker)")
	}
	switch name + ":" + l.T.String() {
	case "Lock:*sync.Mutex", "Lock:*sync.RWMutex":
		hMutexLock(m, fr, nil, []Value{l.V})
	case "Unlock:*sync.Mutex", "Unlock:*sync.RWMutex":
		hMutexUnlock(m, fr, nil, []Value{l.V})
	default:
		m.engineErr("sync.Cond over an unmodelled Locker %s", l.T)
	}
}

func hCondWait(m *Machine, fr *frame, fn *ssa.Function, a []Value) Value {
	p := a[0].(*Value)
	c := m.condOf(p)
	l := m.condLocker(fr, p)
	ticket := c.next
	c.next++
	m.callLockerMethod(fr, l, "Unlock")
	m.blockUntil("Cond.Wait", func() bool { return ticket < c.released })
	m.callLockerMethod(fr, l, "Lock")
	return nil
}

func hCondSignal(m *Machine, fr *frame, fn *ssa.Function, a []Value) Value {
	c := m.condOf(a[0].(*Value))
	if c.released < c.next {
		c.released++
	}
	m.yield("signal")
	return nil
}

func hCondBroadcast(m *Machine, fr *frame, fn *ssa.Function, a []Value) Value {
	c := m.condOf(a[0].(*Value))
	c.released = c.next
	m.yield("signal")
	return nil
}

func hMutexUnlock(m *Machine, fr *frame, fn *ssa.Function, a []Value) Value {
	p := a[0].(*Value)
	s := m.mutexOf(p)
	if !s.writer {
		m.end(StCrash, "fatal error: sync: unlock of unlocked mutex at %s", fr.curPos)
	}
	s.writer = false
	s.owner = nil
	m.yield("unlock")
	return nil
}

func hRLock(m *Machine, fr *frame, fn *ssa.Function, a []Value) Value {
	p := a[0].(*Value)
	m.yield("rlock")
	s := m.mutexOf(p)
	if s.writer {
		m.blockUntil("RLock", func() bool { return !s.writer })
	}
	s.readers++
	return nil
}

func hRUnlock(m *Machine, fr *frame, fn *ssa.Function, a []Value) Value {
	p := a[0].(*Value)
	s := m.mutexOf(p)
	if s.readers <= 0 {
		m.end(StCrash, "fatal error: sync: RUnlock of unlocked RWMutex at %s", fr.curPos)
	}
	s.readers--
	m.yield("runlock")
	return nil
}

func hWGAdd(m *Machine, fr *frame, fn *ssa.Function, a []Value) Value {
	p := a[0].(*Value)
	s := m.wgs[p]
	if s == nil {
		s = &wgState{}
		m.wgs[p] = s
	}
	s.n += m.concretize(a[1].(T), true)
	if s.n < 0 {
		panic(&goPanic{val: m.makeError("sync: negative WaitGroup counter"), pos: fr.curPos})
	}
	m.yield("wg.add")
	return nil
}

func hWGDone(m *Machine, fr *frame, fn *ssa.Function, a []Value) Value {
	return hWGAdd(m, fr, fn, []Value{a[0], m.C.BVC(^uint64(0), 64)})
}

func hWGWait(m *Machine, fr *frame, fn *ssa.Function, a []Value) Value {
	p := a[0].(*Value)
	m.yield("wg.wait")
	s := m.wgs[p]
	if s == nil || s.n == 0 {
		return nil
	}
	m.blockUntil("WaitGroup.Wait", func() bool { return s.n == 0 })
	return nil
}

func hPoolGet(m *Machine, fr *frame, fn *ssa.Function, a []Value) Value {
	p := a[0].(*Value)
	s := m.pools[p]
	n := 0
	if s != nil {
		n = len(s.items)
	}
	// nondeterministic: New() (alternative 0) or any pooled object
	k := 0
	if n > 0 {
		if m.poolMode == 1 {
			k = n // LIFO cache: the most recently Put object
		} else {
			k = m.choose("pool", n+1, nil)
		}
	}
	if k > 0 {
		it := s.items[k-1]
		s.items = append(append([]Value(nil), s.items[:k-1]...), s.items[k:]...)
		return it
	}
	st := (*p).(Struct)
	newFn := st[len(st)-1]
	if isNilFunc(newFn) {
		return Iface{}
	}
	return m.call(newFn, nil, fr, 0)
}

func hPoolPut(m *Machine, fr *frame, fn *ssa.Function, a []Value) Value {
	p := a[0].(*Value)
	s := m.pools[p]
	if s == nil {
		s = &poolState{}
		m.pools[p] = s
	}
	if i, ok := a[1].(Iface); ok && i.T == nil {
		return nil
	}
	if len(s.items) < 2 || m.poolMode == 1 { // keep the nondeterminism small: the pool may drop objects at any time
		s.items = append(s.items, a[1])
	}
	return nil
}

func hOnceDo(m *Machine, fr *frame, fn *ssa.Function, a []Value) Value {
	p := a[0].(*Value)
	if m.onces[p] {
		return nil
	}
	m.onces[p] = true
	m.call(a[1], nil, fr, 0)
	return nil
}

// sync.Map: entries in insertion order; keys compared with Go's interface equality (forking when symbolic).
type syncMapEntry struct{ k, v Value }

func hSyncMap(m *Machine, fr *frame, fn *ssa.Function, a []Value) Value {
	m.yield("atomic")
	p := a[0].(*Value)
	if p == nil {
		m.runtimePanic(fr, "invalid memory address or nil pointer dereference (nil *sync.Map)")
	}
	if m.syncMaps == nil {
		m.syncMaps = map[*Value][]syncMapEntry{}
	}
	find := func(k Value) int {
		m.checkHashable(fr, k)
		for i, e := range m.syncMaps[p] {
			if m.keyEq(fr, e.k, k) {
				return i
			}
		}
		return -1
	}
	nilAny := Value(Iface{})
	switch fn.Name() {
	case "Load":
		if i := find(a[1]); i >= 0 {
			return Tuple{copyVal(m.syncMaps[p][i].v), m.C.BoolC(true)}
		}
		return Tuple{nilAny, m.C.BoolC(false)}
	case "Store":
		if i := find(a[1]); i >= 0 {
			m.syncMaps[p][i].v = copyVal(a[2])
		} else {
			m.syncMaps[p] = append(m.syncMaps[p], syncMapEntry{copyVal(a[1]), copyVal(a[2])})
		}
		return nil
	case "Swap":
		if i := find(a[1]); i >= 0 {
			old := m.syncMaps[p][i].v
			m.syncMaps[p][i].v = copyVal(a[2])
			return Tuple{old, m.C.BoolC(true)}
		}
		m.syncMaps[p] = append(m.syncMaps[p], syncMapEntry{copyVal(a[1]), copyVal(a[2])})
		return Tuple{nilAny, m.C.BoolC(false)}
	case "LoadOrStore":
		if i := find(a[1]); i >= 0 {
			return Tuple{copyVal(m.syncMaps[p][i].v), m.C.BoolC(true)}
		}
		m.syncMaps[p] = append(m.syncMaps[p], syncMapEntry{copyVal(a[1]), copyVal(a[2])})
		return Tuple{copyVal(a[2]), m.C.BoolC(false)}
	case "LoadAndDelete", "Delete":
		i := find(a[1])
		var old Value = nilAny
		if i >= 0 {
			old = m.syncMaps[p][i].v
			es := m.syncMaps[p]
			m.syncMaps[p] = append(append([]syncMapEntry{}, es[:i]...), es[i+1:]...)
		}
		if fn.Name() == "Delete" {
			return nil
		}
		return Tuple{old, m.C.BoolC(i >= 0)}
	case "Range":
		for _, e := range append([]syncMapEntry{}, m.syncMaps[p]...) {
			r := m.call(a[1], []Value{copyVal(e.k), copyVal(e.v)}, fr, 0)
			if !m.branch(r.(T)) {
				break
			}
		}
		return nil
	}
	m.engineErr("sync.Map.%s not modelled", fn.Name())
	return nil
}

// ---- atomic ----

func hAtomicLoad(m *Machine, fr *frame, fn *ssa.Function, a []Value) Value {
	m.yield("atomic")
	p := a[0].(*Value)
	if p == nil {
		m.runtimePanic(fr, "nil pointer dereference (atomic)")
	}
	return load(p)
}

func hAtomicStore(m *Machine, fr *frame, fn *ssa.Function, a []Value) Value {
	m.yield("atomic")
	p := a[0].(*Value)
	if p == nil {
		m.runtimePanic(fr, "nil pointer dereference (atomic)")
	}
	store(p, a[1])
	return nil
}

func hAtomicAdd(m *Machine, fr *frame, fn *ssa.Function, a []Value) Value {
	m.yield("atomic")
	p := a[0].(*Value)
	v := m.C.BvBin(smt.OBvAdd, (*p).(T), a[1].(T))
	store(p, v)
	return v
}

func hAtomicCAS(m *Machine, fr *frame, fn *ssa.Function, a []Value) Value {
	m.yield("atomic")
	p := a[0].(*Value)
	if m.branch(m.C.Eq((*p).(T), a[1].(T))) {
		store(p, a[2])
		return m.C.True()
	}
	return m.C.False()
}

// ---- math ----

func hFloatBits(m *Machine, fr *frame, fn *ssa.Function, a []Value) Value {
	x := a[0].(T)
	if x.IsConst() {
		return m.C.BVC(x.Val, x.S.W)
	}
	if x.Op == smt.OFpFromBits {
		// NaN payloads are preserved by Go's Float64bits(Float64frombits(b)) on amd64
		return x.Args[0]
	}
	b := m.C.Fresh("fbits", smt.BV(x.S.W))
	m.addPC(m.C.Eq(m.C.FpFromBits(b), x))
	return b
}

// ---- fmt ----

func (m *Machine) hostValue(v Value, t types.Type) (interface{}, bool) {
	switch x := v.(type) {
	case string:
		return x, true
	case T:
		if !x.IsConst() {
			return nil, false
		}
		if x.S.K == smt.SBool {
			return x.Val == 1, true
		}
		if x.S.K == smt.SFP {
			if x.S.W == 32 {
				return float32(x.Float()), true
			}
			return x.Float(), true
		}
		if t != nil {
			if k, ok := basicInfo(t); ok {
				if k.signed {
					switch k.width {
					case 8:
						return int8(x.Int64()), true
					case 16:
						return int16(x.Int64()), true
					case 32:
						return int32(x.Int64()), true
					}
					return int(x.Int64()), true
				}
				switch k.width {
				case 8:
					return uint8(x.Val), true
				case 16:
					return uint16(x.Val), true
				case 32:
					return uint32(x.Val), true
				}
				return uint(x.Val), true
			}
		}
		return x.Int64(), true
	case Iface:
		if x.T == nil {
			return nil, true
		}
		if types.Identical(x.T, m.P.errorStringPtr) {
			p := x.V.(*Value)
			if s, ok := (*p).(Struct)[0].(string); ok {
				return fmt.Errorf("%s", s), true
			}
		}
		return m.hostValue(x.V, x.T)
	case *Value:
		if x == nil {
			return (*int)(nil), true // fmt renders every nil pointer as <nil>
		}
	}
	return describe(v), true
}

// stringerText: fmt's %v / %s / Sprint of an operand whose dynamic type has an Error() or String() method (of a
// package under test or a harness) prints what that method returns; a panic of the method on a nil receiver prints
// "<nil>" (fmt's documented behaviour). ok is false when there is no such method or the result is symbolic.
func (m *Machine) stringerText(fr *frame, a Value) (text string, ok bool) {
	i, isIface := a.(Iface)
	if !isIface || i.T == nil {
		return "", false
	}
	if types.Identical(i.T, m.P.errorStringPtr) {
		return "", false // errors made by errors.New: handled by hostValue
	}
	ms := m.P.Prog.MethodSets.MethodSet(i.T)
	for _, name := range []string{"Error", "String"} {
		sel := ms.Lookup(nil, name)
		if sel == nil {
			continue
		}
		sig, _ := sel.Type().(*types.Signature)
		if sig == nil || sig.Params().Len() != 0 || sig.Results().Len() != 1 || !types.Identical(sig.Results().At(0).Type(), types.Typ[types.String]) {
			continue
		}
		fn := m.P.Prog.MethodValue(sel)
		if fn == nil || fn.Pkg == nil || !m.P.repoPkgs[fn.Pkg] {
			return "", false
		}
		var res Value
		panicked := false
		func() {
			defer func() {
				if r := recover(); r != nil {
					if _, isGo := r.(*goPanic); isGo {
						panicked = true
						return
					}
					panic(r)
				}
			}()
			res = m.call(fn, []Value{i.V}, fr, 0)
		}()
		if panicked {
			if p, isPtr := i.V.(*Value); isPtr && p == nil {
				return "<nil>", true
			}
			return "", false
		}
		if str, isStr := res.(string); isStr {
			return str, true
		}
		return "", false
	}
	return "", false
}

func (m *Machine) sprintf(fr *frame, format Value, args Slice) Value {
	var hv []interface{}
	allConc := true
	var symArg Value
	for i := 0; i < args.Len; i++ {
		a := args.Arr.Elems[args.Off+i]
		if txt, isStringer := m.stringerText(fr, a); isStringer {
			hv = append(hv, txt) // %v / %s of a Stringer (the verbs these code bases use): the method's text
			continue
		}
		h, ok := m.hostValue(a, nil)
		if !ok {
			allConc = false
			symArg = a
			h = "<sym>"
		}
		hv = append(hv, h)
	}
	if format == nil {
		if !allConc {
			return m.C.Fresh("sprint", smt.Str)
		}
		return fmt.Sprint(hv...)
	}
	f := m.concStr(format)
	if allConc {
		return fmt.Sprintf(f, hv...)
	}
	// one symbolic scalar rendered with %v / %d: an opaque, injective-by-type string term
	if args.Len == 1 && (f == "%v" || f == "%d") {
		i := symArg.(Iface)
		if t, ok := i.V.(T); ok {
			return m.C.App("fmtv_"+i.T.String(), smt.Str, t)
		}
	}
	// symbolic string arguments with %s / %v: concatenation
	parts := strings.Split(f, "%")
	if len(parts) == args.Len+1 {
		var res T = m.C.StrC(parts[0])
		okAll := true
		for i := 1; i < len(parts); i++ {
			if len(parts[i]) == 0 || (parts[i][0] != 's' && parts[i][0] != 'v') {
				okAll = false
				break
			}
			a := args.Arr.Elems[args.Off+i-1]
			var at T
			switch x := a.(Iface).V.(type) {
			case string:
				at = m.C.StrC(x)
			case T:
				if x.S.K == smt.SStr {
					at = x
				} else if x.IsConst() {
					h, _ := m.hostValue(a, nil)
					at = m.C.StrC(fmt.Sprint(h))
				} else {
					at = m.C.App("fmtv_"+a.(Iface).T.String(), smt.Str, x)
				}
			default:
				okAll = false
			}
			if !okAll {
				break
			}
			res = m.C.StrConcat(res, at)
			res = m.C.StrConcat(res, m.C.StrC(parts[i][1:]))
		}
		if okAll {
			return res
		}
	}
	return m.C.Fresh("sprintf", smt.Str)
}

func hSprintf(m *Machine, fr *frame, fn *ssa.Function, a []Value) Value {
	return m.sprintf(fr, a[0], a[1].(Slice))
}

// ---- strconv (concrete strings evaluated by the host; symbolic numerals via the contract model) ----

func (m *Machine) hostErr(err error) Value {
	if err == nil {
		return Iface{}
	}
	return m.makeError(err.Error())
}

func hItoa(m *Machine, fr *frame, fn *ssa.Function, a []Value) Value {
	t := a[0].(T)
	if t.IsConst() {
		return strconv.Itoa(int(t.Int64()))
	}
	return m.C.App("itoa", smt.Str, t)
}

// numeral recognises the opaque numeral strings produced by vfNumStr: App("numstr", bits) etc.
func (m *Machine) numeral(v Value) (T, bool) {
	t, ok := v.(T)
	if !ok || t.Op != smt.OApp {
		return nil, false
	}
	if t.Name == "itoa" || t.Name == "numstr" {
		return t.Args[0], true
	}
	return nil, false
}

func hAtoi(m *Machine, fr *frame, fn *ssa.Function, a []Value) Value {
	if s, ok := a[0].(string); ok {
		v, err := strconv.Atoi(s)
		return Tuple{m.C.BVC(uint64(v), 64), m.hostErr(err)}
	}
	if n, ok := m.numeral(a[0]); ok {
		return Tuple{n, Iface{}}
	}
	m.engineErr("strconv.Atoi of unstructured symbolic string")
	return nil
}

func hParseInt(m *Machine, fr *frame, fn *ssa.Function, a []Value) Value {
	base := int(m.concretize(a[1].(T), true))
	bits := int(m.concretize(a[2].(T), true))
	if s, ok := a[0].(string); ok {
		v, err := strconv.ParseInt(s, base, bits)
		return Tuple{m.C.BVC(uint64(v), 64), m.hostErr(err)}
	}
	if n, ok := m.numeral(a[0]); ok && base == 10 {
		// numeral of a 64-bit signed integer n: ok iff n fits in `bits` bits; else clamped value + range error
		if bits == 0 {
			bits = 64
		}
		if bits >= 64 {
			return Tuple{n, Iface{}}
		}
		c := m.C
		lo := c.BVC(uint64(-(int64(1) << uint(bits-1))), 64)
		hi := c.BVC(uint64((int64(1)<<uint(bits-1))-1), 64)
		if m.branch(c.BvCmp(smt.OBvSlt, n, lo)) {
			return Tuple{lo, m.makeError("strconv.ParseInt: value out of range")}
		}
		if m.branch(c.BvCmp(smt.OBvSlt, hi, n)) {
			return Tuple{hi, m.makeError("strconv.ParseInt: value out of range")}
		}
		return Tuple{n, Iface{}}
	}
	m.engineErr("strconv.ParseInt of unstructured symbolic string")
	return nil
}

func hParseUint(m *Machine, fr *frame, fn *ssa.Function, a []Value) Value {
	base := int(m.concretize(a[1].(T), true))
	bits := int(m.concretize(a[2].(T), true))
	if s, ok := a[0].(string); ok {
		v, err := strconv.ParseUint(s, base, bits)
		return Tuple{m.C.BVC(v, 64), m.hostErr(err)}
	}
	if n, ok := m.numeral(a[0]); ok && base == 10 {
		// numeral of a 64-bit signed integer n: a leading '-' is a syntax error for ParseUint
		c := m.C
		if bits == 0 {
			bits = 64
		}
		if m.branch(c.BvCmp(smt.OBvSlt, n, c.BVC(0, 64))) {
			return Tuple{c.BVC(0, 64), m.makeError("strconv.ParseUint: invalid syntax")}
		}
		if bits < 64 {
			hi := c.BVC((uint64(1)<<uint(bits))-1, 64)
			if m.branch(c.BvCmp(smt.OBvUlt, hi, n)) {
				return Tuple{hi, m.makeError("strconv.ParseUint: value out of range")}
			}
		}
		return Tuple{n, Iface{}}
	}
	m.engineErr("strconv.ParseUint of unstructured symbolic string")
	return nil
}

func hParseFloat(m *Machine, fr *frame, fn *ssa.Function, a []Value) Value {
	bits := int(m.concretize(a[1].(T), true))
	if s, ok := a[0].(string); ok {
		v, err := strconv.ParseFloat(s, bits)
		return Tuple{m.C.F64(v), m.hostErr(err)}
	}
	if n, ok := m.numeral(a[0]); ok {
		// numeral of an integer: exactly that integer rounded to the target precision
		f := m.C.FpFromInt(n, true, 64)
		if bits == 32 {
			f = m.C.FpToFp(m.C.FpFromInt(n, true, 32), 64)
		}
		return Tuple{f, Iface{}}
	}
	m.engineErr("strconv.ParseFloat of unstructured symbolic string")
	return nil
}

func hParseBool(m *Machine, fr *frame, fn *ssa.Function, a []Value) Value {
	if s, ok := a[0].(string); ok {
		v, err := strconv.ParseBool(s)
		return Tuple{m.C.BoolC(v), m.hostErr(err)}
	}
	if _, ok := m.numeral(a[0]); ok {
		n, _ := m.numeral(a[0])
		c := m.C
		if m.branch(c.Eq(n, c.BVC(0, 64))) {
			return Tuple{c.False(), Iface{}}
		}
		if m.branch(c.Eq(n, c.BVC(1, 64))) {
			return Tuple{c.True(), Iface{}}
		}
		return Tuple{c.False(), m.makeError("strconv.ParseBool: invalid syntax")}
	}
	m.engineErr("strconv.ParseBool of unstructured symbolic string")
	return nil
}

func hStringsCompare(m *Machine, fr *frame, fn *ssa.Function, a []Value) Value {
	c := m.C
	x, xok := a[0].(string)
	y, yok := a[1].(string)
	if xok && yok {
		return c.BVC(uint64(int64(strings.Compare(x, y))), 64)
	}
	xt, yt := m.strTerm(a[0]), m.strTerm(a[1])
	return c.Ite(c.Eq(xt, yt), c.BVC(0, 64), c.Ite(c.StrLt(xt, yt), c.BVC(^uint64(0), 64), c.BVC(1, 64)))
}

func hReplaceAll(m *Machine, fr *frame, fn *ssa.Function, a []Value) Value {
	s, ok1 := a[0].(string)
	old, ok2 := a[1].(string)
	nw, ok3 := a[2].(string)
	if ok1 && ok2 && ok3 {
		return strings.ReplaceAll(s, old, nw)
	}
	return m.ropeReplaceAll(a[0], a[1], a[2])
}

func hRegexpMatch(m *Machine, fr *frame, fn *ssa.Function, a []Value) Value {
	p, ok1 := a[0].(string)
	s, ok2 := a[1].(string)
	if ok1 && ok2 {
		ok, err := regexp.MatchString(p, s)
		return Tuple{m.C.BoolC(ok), m.hostErr(err)}
	}
	r := m.C.App("regexp_match", smt.Bool, m.strTerm(a[0]), m.strTerm(a[1]))
	return Tuple{r, Iface{}}
}

// ---- sort ----

// sort.SliceStable is, for n <= 20, exactly an insertion sort (sort.insertionSort_func); modelled as such.
func hSortSliceStable(m *Machine, fr *frame, fn *ssa.Function, a []Value) Value {
	xi := a[0].(Iface)
	sl, ok := xi.V.(Slice)
	if !ok {
		m.reflectPanic(fr, "sort.SliceStable: not a slice")
	}
	less := a[1]
	n := sl.Len
	if n > 20 {
		m.end(StUnwind, "sort.SliceStable model covers n <= 20")
	}
	callLess := func(i, j int) bool {
		r := m.call(less, []Value{m.C.BVC(uint64(i), 64), m.C.BVC(uint64(j), 64)}, fr, 0)
		return m.branch(r.(T))
	}
	m.insertionSort(sl, callLess)
	return nil
}

// insertionSort is sort.insertionSort_func: what sort.SliceStable does for n <= 20 and sort.Slice for n <= 12.
func (m *Machine) insertionSort(sl Slice, callLess func(i, j int) bool) {
	for i := 1; i < sl.Len; i++ {
		for j := i; j > 0 && callLess(j, j-1); j-- {
			e := sl.Arr.Elems
			pa, pb := &e[sl.Off+j], &e[sl.Off+j-1]
			m.noteWrite(pa)
			m.noteWrite(pb)
			va, vb := copyVal(*pa), copyVal(*pb)
			store(pa, vb)
			store(pb, va)
		}
	}
}

// sort.Slice. For n <= 12 the real function (pdqsort_func) IS the stable insertion sort, modelled exactly. Beyond that
// it promises an ordered permutation only; the model offers two of the permitted outcomes as a choice: the stable
// order and the order with every group of ties reversed (an under-approximation of "any ordered permutation", enough
// to expose reliance on stability; what the real pdqsort does with a given input is seen by the native replay).
func hSortSliceAny(m *Machine, fr *frame, fn *ssa.Function, a []Value) Value {
	xi := a[0].(Iface)
	sl, ok := xi.V.(Slice)
	if !ok {
		m.reflectPanic(fr, "sort.Slice: not a slice")
	}
	less := a[1]
	n := sl.Len
	if n > 20 {
		m.end(StUnwind, "sort.Slice model covers n <= 20")
	}
	callLess := func(i, j int) bool {
		r := m.call(less, []Value{m.C.BVC(uint64(i), 64), m.C.BVC(uint64(j), 64)}, fr, 0)
		return m.branch(r.(T))
	}
	if n > 12 && m.choose("perm", 2, nil) == 1 {
		// ties move in front of their equals: ordered, every tie group reversed
		m.insertionSort(sl, func(i, j int) bool { return !callLess(j, i) })
		return nil
	}
	m.insertionSort(sl, callLess)
	return nil
}

// sort.SliceIsSorted is literally: for i := n - 1; i > 0; i-- { if less(i, i-1) { return false } }; return true
func hSortSliceIsSorted(m *Machine, fr *frame, fn *ssa.Function, a []Value) Value {
	xi := a[0].(Iface)
	sl, ok := xi.V.(Slice)
	if !ok {
		m.reflectPanic(fr, "sort.SliceIsSorted: not a slice")
	}
	for i := sl.Len - 1; i > 0; i-- {
		r := m.call(a[1], []Value{m.C.BVC(uint64(i), 64), m.C.BVC(uint64(i-1), 64)}, fr, 0)
		if m.branch(r.(T)) {
			return m.C.False()
		}
	}
	return m.C.True()
}

// strings.Builder model state, keyed by the builder's address
func (m *Machine) builderGet(p Value) Value {
	if bp, ok := p.(*Value); ok && bp != nil {
		if v, ok := m.builders[bp]; ok {
			return v
		}
	}
	return ""
}

func (m *Machine) builderSet(p Value, v Value) {
	bp, ok := p.(*Value)
	if !ok || bp == nil {
		m.engineErr("strings.Builder method on a nil receiver")
	}
	if m.builders == nil {
		m.builders = map[*Value]Value{}
	}
	m.builders[bp] = v
}

// strConcat: concatenation of two string values (concrete when both are)
func (m *Machine) strConcat(a, b Value) Value {
	as, ok1 := a.(string)
	bs, ok2 := b.(string)
	if ok1 && ok2 {
		return as + bs
	}
	return m.C.StrConcat(m.strTerm(a), m.strTerm(b))
}

// unwrapErr: the error returned by err's Unwrap() error method, if it has one
func (m *Machine) unwrapErr(fr *frame, err Iface) (Iface, bool) {
	if err.T == nil {
		return Iface{}, false
	}
	sel := m.P.Prog.MethodSets.MethodSet(err.T).Lookup(nil, "Unwrap")
	if sel == nil {
		return Iface{}, false
	}
	sig, _ := sel.Type().(*types.Signature)
	if sig == nil || sig.Params().Len() != 0 || sig.Results().Len() != 1 {
		return Iface{}, false
	}
	fnv := m.P.Prog.MethodValue(sel)
	if fnv == nil {
		return Iface{}, false
	}
	res, ok := m.call(fnv, []Value{err.V}, fr, 0).(Iface)
	return res, ok
}

var _ = math.Abs

func (m *Machine) panicText(v Value) string {
	if i, ok := v.(Iface); ok && i.T != nil {
		if types.Identical(i.T, m.P.errorStringPtr) {
			if p, ok := i.V.(*Value); ok && p != nil {
				return describe((*p).(Struct)[0])
			}
		}
	}
	return describe(v)
}

func (m *Machine) ropeReplaceAll(s, old, nw Value) Value {
	m.engineErr("strings.ReplaceAll on symbolic strings not modelled yet")
	return nil
}

// ---- translator validation: the repository's own unit tests executed through the engine ----

func hTestingT(m *Machine, fr *frame, fn *ssa.Function, a []Value) Value {
	switch fn.Name() {
	case "Error", "Errorf", "Fatal", "Fatalf", "Fail", "FailNow":
		m.Res.Violations = append(m.Res.Violations, Violation{Harness: m.name, Label: "t." + fn.Name(), Pos: fr.curPos})
	}
	return m.zeroResults(fn)
}

func (m *Machine) isNilObject(v Value) bool {
	i, ok := v.(Iface)
	if !ok {
		return false
	}
	if i.T == nil {
		return true
	}
	switch x := i.V.(type) {
	case *Value:
		return x == nil
	case Slice:
		return x.Arr == nil
	case *MapObj:
		return x == nil
	case *ChanObj:
		return x == nil
	case *Closure:
		return x == nil
	}
	return false
}

func (m *Machine) recordTestAssert(fr *frame, name string, ok T) Value {
	if ok.IsTrue() {
		m.Res.Asserts["assert."+name]++
	} else {
		m.Res.Violations = append(m.Res.Violations, Violation{Harness: m.name, Label: "assert." + name, Pos: fr.curPos, Msg: ok.Pretty()})
	}
	return ok
}

func init() {
	const pfx = "github.com/stretchr/testify/assert."
	intrinsics[pfx+"Equal"] = func(m *Machine, fr *frame, fn *ssa.Function, a []Value) Value {
		return m.recordTestAssert(fr, "Equal", m.deepEq(fr, a[1], a[2], map[[2]interface{}]bool{}))
	}
	intrinsics[pfx+"NotEqual"] = func(m *Machine, fr *frame, fn *ssa.Function, a []Value) Value {
		return m.recordTestAssert(fr, "NotEqual", m.C.Not(m.deepEq(fr, a[1], a[2], map[[2]interface{}]bool{})))
	}
	intrinsics[pfx+"Nil"] = func(m *Machine, fr *frame, fn *ssa.Function, a []Value) Value {
		return m.recordTestAssert(fr, "Nil", m.C.BoolC(m.isNilObject(a[1])))
	}
	intrinsics[pfx+"NotNil"] = func(m *Machine, fr *frame, fn *ssa.Function, a []Value) Value {
		return m.recordTestAssert(fr, "NotNil", m.C.BoolC(!m.isNilObject(a[1])))
	}
	intrinsics[pfx+"NoError"] = func(m *Machine, fr *frame, fn *ssa.Function, a []Value) Value {
		return m.recordTestAssert(fr, "NoError", m.C.BoolC(a[1].(Iface).T == nil))
	}
	intrinsics[pfx+"Error"] = func(m *Machine, fr *frame, fn *ssa.Function, a []Value) Value {
		return m.recordTestAssert(fr, "Error", m.C.BoolC(a[1].(Iface).T != nil))
	}
	intrinsics[pfx+"True"] = func(m *Machine, fr *frame, fn *ssa.Function, a []Value) Value {
		return m.recordTestAssert(fr, "True", a[1].(T))
	}
	intrinsics[pfx+"False"] = func(m *Machine, fr *frame, fn *ssa.Function, a []Value) Value {
		return m.recordTestAssert(fr, "False", m.C.Not(a[1].(T)))
	}
	intrinsics[pfx+"GreaterOrEqual"] = func(m *Machine, fr *frame, fn *ssa.Function, a []Value) Value {
		x, y := a[1].(Iface), a[2].(Iface)
		xt, ok1 := x.V.(T)
		yt, ok2 := y.V.(T)
		if !ok1 || !ok2 {
			m.engineErr("assert.GreaterOrEqual on non-numeric values")
		}
		return m.recordTestAssert(fr, "GreaterOrEqual", m.C.BvCmp(smt.OBvSle, yt, xt))
	}
}
