// vcheck: solver-based checking of fpGo's real code (see /verif/DESIGN.md).
//
//	vcheck run --prop C03 --tier quick|thorough [--harness substr] [--workers N] [-v]
//	vcheck replay --prop C03 <replay.json>
package main

import (
	"encoding/json"
	"flag"
	"fmt"
	"os"
	"path/filepath"
	"regexp"
	"runtime"
	"sort"
	"strconv"
	"strings"
	"time"

	"golang.org/x/tools/go/ssa"

	"verif/engine/gosym"
)

var verifDir = "/verif"
var repoDir = "/repo"

// delay bound of the thorough tier per property (default 1)
var thoroughDelay = map[string]int{"C10": 4, "C11": 5, "C12": 3, "C13": 2, "C14": 2, "C15": 3, "C16": 2, "C20": 6}

func main() {
	if d := os.Getenv("VERIF_DIR"); d != "" {
		verifDir = d
	}
	if d := os.Getenv("VERIF_REPO"); d != "" {
		repoDir = d
	}
	if len(os.Args) < 2 {
		fmt.Fprintln(os.Stderr, "usage: vcheck run|replay ...")
		os.Exit(2)
	}
	switch os.Args[1] {
	case "run":
		os.RemoveAll(replayDir(propArg(os.Args[2:])))
		if alts, _ := filepath.Glob(filepath.Join(verifDir, "replays", "alt-*")); len(alts) > 0 {
			for _, a := range alts { // left by earlier runs against other trees: keep an hour for inspection
				if st, err := os.Stat(a); err == nil && time.Since(st.ModTime()) > time.Hour {
					os.RemoveAll(a)
				}
			}
		}
		os.Exit(cmdRun(os.Args[2:]))
	case "replay":
		os.Exit(cmdReplay(os.Args[2:]))
	case "selftest":
		os.Exit(cmdSelftest(os.Args[2:]))
	default:
		fmt.Fprintln(os.Stderr, "unknown command", os.Args[1])
		os.Exit(2)
	}
}

// propPkg: which package directory of the repository a property's harnesses live in.
var harnessDirs = []string{"root", "worker", "network"}

func pkgDirOf(h string) string {
	if h == "root" {
		return ""
	}
	return h
}

type propConfig struct {
	QuickPaths    int
	ThoroughPaths int
}

func cmdRun(args []string) int {
	fs := flag.NewFlagSet("run", flag.ExitOnError)
	prop := fs.String("prop", "", "property id (C01..C20)")
	tier := fs.String("tier", envOr("VERIF_TIER", "quick"), "quick|thorough")
	only := fs.String("harness", "", "only harnesses whose name contains this")
	workers := fs.Int("workers", runtime.NumCPU(), "parallel workers")
	verbose := fs.Bool("v", false, "verbose")
	noReplay := fs.Bool("no-replay", false, "skip native replay of counterexamples")
	maxPaths := fs.Int("max-paths", 0, "path bound per harness (0 = tier default)")
	fs.Parse(args)
	if *prop == "" {
		fmt.Fprintln(os.Stderr, "--prop required")
		return 2
	}
	seed, _ := strconv.ParseInt(envOr("VERIF_SEED", "0"), 10, 64)
	t0 := time.Now()
	tierN := 0
	if *tier == "thorough" {
		tierN = 1
	}
	ev := newEvidence(*prop, *tier, seed)
	exit := 0
	anyHarness := false
	for _, hd := range harnessDirs {
		files, _ := filepath.Glob(filepath.Join(verifDir, "harness", hd, *prop+"_*.go"))
		if len(files) == 0 {
			continue
		}
		libs, _ := filepath.Glob(filepath.Join(verifDir, "harness", hd, "lib_*.go"))
		files = append(files, libs...)
		pkgName, err := packageName(filepath.Join(repoDir, pkgDirOf(hd)))
		if err != nil {
			fmt.Fprintln(os.Stderr, "vcheck:", err)
			return 2
		}
		cfg := gosym.LoadConfig{RepoDir: repoDir, PkgDir: pkgDirOf(hd), Overlay: map[string]string{}, OverlaySrc: map[string][]byte{}}
		for _, f := range files {
			cfg.Overlay["zz_vh_"+filepath.Base(f)] = f
		}
		instrument := wantsInstrument(files)
		cfg.Instrument = instrument
		for _, c := range []string{"vf_engine.go", "vf_lib.go"} {
			b, err := os.ReadFile(filepath.Join(verifDir, "harness", "common", c))
			if err != nil {
				fmt.Fprintln(os.Stderr, "vcheck:", err)
				return 2
			}
			cfg.OverlaySrc["zz_"+c] = []byte(strings.Replace(string(b), "package PKG", "package "+pkgName, 1))
			if c == "vf_engine.go" {
				cfg.VfDecls = b
			}
		}
		tl := time.Now()
		p, err := gosym.Load(cfg)
		if err != nil {
			// white-box lemma files name unexported identifiers; when they stop compiling against a changed tree the
			// property is decided by the black-box harnesses alone
			dropped := false
			for k := range cfg.Overlay {
				if strings.HasSuffix(k, "_whitebox.go") {
					delete(cfg.Overlay, k)
					dropped = true
				}
			}
			if dropped {
				if p2, err2 := gosym.Load(cfg); err2 == nil {
					fmt.Printf("NOTE property=%s white-box lemma file(s) skipped: they no longer compile against this tree (%s)\n", *prop, firstLine(strings.TrimPrefix(err.Error(), "load errors:\n")))
					ev.Problems = append(ev.Problems, "white-box lemma files skipped (do not compile against this tree)")
					var kept []string
					for _, f := range files {
						if !strings.HasSuffix(f, "_whitebox.go") {
							kept = append(kept, f)
						}
					}
					files = kept
					p, err = p2, nil
				}
			}
		}
		if err != nil {
			fmt.Fprintf(os.Stderr, "vcheck: cannot load %s with harness overlay: %v\n", hd, err)
			ev.Problems = append(ev.Problems, "load: "+err.Error())
			exit = 2
			continue
		}
		ev.LoadS += time.Since(tl).Seconds()
		entries := p.Harnesses("vh_" + *prop + "_")
		if *only != "" {
			var sel = entries[:0]
			for _, e := range entries {
				if strings.Contains(e.Name(), *only) {
					sel = append(sel, e)
				}
			}
			entries = sel
		}
		if len(entries) == 0 {
			continue
		}
		anyHarness = true
		ec := gosym.ExploreConfig{Workers: *workers, MaxPaths: 150000, TimeoutMs: 60000, Verbose: *verbose}
		if tierN == 1 {
			ec.MaxPaths = 2000000
			ec.TimeoutMs = 300000
		}
		if *maxPaths > 0 {
			ec.MaxPaths = *maxPaths
		}
		ec.Opt = gosym.Options{MaxSteps: 2000000, LoopBound: 64, DelayBound: 1, Seed: seed, Tier: tierN, CrossPct: 2 + 98*tierN}
		if tierN == 1 {
			// thorough: a larger delay bound where the whole harness set stays within minutes (measured, DESIGN.md §4);
			// the others keep bound 1 on larger configurations, their "deep" harnesses set 2-3 on small ones
			if d, ok := thoroughDelay[*prop]; ok {
				ec.Opt.DelayBound = d
			}
		}
		ec.Opt.NoPOR = os.Getenv("VF_NOPOR") == "1"
		if d, err := strconv.Atoi(os.Getenv("VF_DELAY")); err == nil {
			ec.Opt.DelayBound = d // development override
		}
		ev.Bounds = map[string]interface{}{
			"delay_bound_default":           ec.Opt.DelayBound,
			"delay_bound_note":              "deviations from the round-robin base schedule per run; harnesses named *Deep / *Lemma* / PMapSizes set their own (3, 2 or 0) with vfSetDelayBound",
			"scheduling_granularity":        "one source statement (points inserted by the overlay instrumenter); partial-order reduction of invisible segments: " + map[bool]string{true: "off", false: "on"}[ec.Opt.NoPOR],
			"loop_unwinding_per_block":      ec.Opt.LoopBound,
			"path_bound_per_harness":        ec.MaxPaths,
			"ssa_step_bound_per_path":       ec.Opt.MaxSteps,
			"solver_timeout_ms":             ec.TimeoutMs,
			"sizes":                         "stated in each harness header comment and DESIGN.md §3/§4 (vfRange / vfChoose bounds, scaled by the tier); *AtScale / SlowReplies harnesses add sizes and latencies just beyond every integer (4..300) / time.Duration (1 ms..10 s) constant that the functions under test compare with or mention in the CURRENT source (DESIGN.md §2.13)",
			"cvc5_cross_check_pct_of_unsat": ec.Opt.CrossPct,
		}
		sums, st := gosym.Explore(p, entries, ec)
		ev.addSolver(st)
		for _, s := range sums {
			for why, n := range s.Degraded {
				fmt.Printf("NOTE property=%s harness=%s reduced coverage on %d paths: %s\n", *prop, s.Name, n, why)
				ev.Problems = append(ev.Problems, fmt.Sprintf("%s: reduced coverage on %d paths: %s", s.Name, n, why))
			}
			ev.addBlocks(p, s)
			ev.addHarness(s)
			if *verbose {
				printSummary(s)
			}
		}
		// decide
		rc := decide(*prop, hd, files, pkgName, sums, ev, !*noReplay, instrument)
		if rc > exit {
			exit = rc
		}
	}
	if !anyHarness {
		fmt.Fprintf(os.Stderr, "vcheck: no harness for %s\n", *prop)
		return 2
	}
	if ev.Violations > 0 {
		exit = 1 // a replayed violation decides the verdict, whatever else stayed inconclusive
	}
	ev.WallS = time.Since(t0).Seconds()
	evPath := filepath.Join(verifDir, "evidence", *prop+".json")
	if *only != "" || *maxPaths > 0 || os.Getenv("VF_DELAY") != "" || os.Getenv("VF_NOPOR") != "" || os.Getenv("VF_EVIDENCE_DIR") != "" {
		// development runs (filtered / overridden) and runs against a deliberately changed tree never overwrite the registered evidence
		d := os.Getenv("VF_EVIDENCE_DIR")
		if d == "" {
			d = filepath.Join(verifDir, "replays")
		}
		os.MkdirAll(d, 0o755)
		evPath = filepath.Join(d, *prop+".evidence.json")
	}
	if err := ev.write(evPath); err != nil {
		fmt.Fprintln(os.Stderr, "vcheck: evidence:", err)
		return 2
	}
	fmt.Printf("%s tier=%s harnesses=%d paths=%d queries=%d (unsat %d, sat %d, unknown %d) solver=%.1fs wall=%.1fs violations=%d known=%d exit=%d\n",
		*prop, *tier, ev.Harnesses, ev.Paths, ev.Queries, ev.QUnsat, ev.QSat, ev.QUnknown, ev.SolverS, ev.WallS, ev.Violations, ev.Known, exit)
	return exit
}

func envOr(k, d string) string {
	if v := os.Getenv(k); v != "" {
		return v
	}
	return d
}

var pkgRe = regexp.MustCompile(`(?m)^package\s+(\w+)`)

func packageName(dir string) (string, error) {
	files, _ := filepath.Glob(filepath.Join(dir, "*.go"))
	for _, f := range files {
		if strings.HasSuffix(f, "_test.go") {
			continue
		}
		b, err := os.ReadFile(f)
		if err != nil {
			continue
		}
		if m := pkgRe.FindSubmatch(b); m != nil {
			return string(m[1]), nil
		}
	}
	return "", fmt.Errorf("no package clause found in %s", dir)
}

func printSummary(s *gosym.HarnessSummary) {
	fmt.Printf("  %-40s paths=%d status=%v forks=%v\n", s.Name, s.Paths, s.ByStatus, s.Forks)
	if len(s.Asserts) > 0 {
		fmt.Printf("      discharged=%v\n", s.Asserts)
	}
	if len(s.Unknown) > 0 {
		fmt.Printf("      UNKNOWN=%v\n", s.Unknown)
	}
	for _, l := range gosym.SortedLabels(s.Violations) {
		v := s.Violations[l]
		fmt.Printf("      CEX %s (x%d) %s %s inputs=%s\n", l, s.ViolCount[l], v.Pos, v.Msg, inputsStr(v))
	}
	for _, p := range s.Problems {
		fmt.Printf("      PROBLEM %s\n", firstLine(p))
	}
	if s.Truncated {
		fmt.Printf("      TRUNCATED at %d paths\n", s.Paths)
	}
}

func firstLine(s string) string {
	if i := strings.Index(s, "\n"); i >= 0 && !strings.Contains(s[:i], "engine bug") {
		return s[:i]
	}
	if len(s) > 1500 {
		return s[:1500]
	}
	return s
}

func inputsStr(v *gosym.Violation) string {
	var parts []string
	for _, in := range v.Inputs {
		parts = append(parts, in.Name+"="+in.Val)
	}
	for _, a := range v.Apps {
		parts = append(parts, fmt.Sprintf("%s%v=%d", a.Fn, a.Args, int64(a.Ret)))
	}
	s := strings.Join(parts, " ")
	if len(s) > 400 {
		s = s[:400] + "…"
	}
	return s
}

// ---- evidence ----

type evidence struct {
	Prop, Tier  string
	Seed        int64
	WallS       float64
	LoadS       float64
	Harnesses   int
	Paths       int
	Decisions   int
	Queries     int
	QSat        int
	QUnsat      int
	QUnknown    int
	QErrors     int
	SolverS     float64
	Discharged  int
	Inconcl     int
	Violations  int
	Known       int
	Replays     int
	ReplaysOK   int
	Funcs       map[string]bool
	ForkKinds   map[string]int
	Cross       map[string]int
	BySolver    int
	Bounds      map[string]interface{}
	BlockCov    map[string]*blockCov
	PerHarness  []map[string]interface{}
	Samples     []interface{}
	Problems    []string
	KnownLines  []string
	LemmaLines  []string
	ViolLines   []string
	StatusCount map[string]int
	Reached     map[string]int
}

func newEvidence(prop, tier string, seed int64) *evidence {
	return &evidence{Prop: prop, Tier: tier, Seed: seed, Funcs: map[string]bool{}, ForkKinds: map[string]int{}, StatusCount: map[string]int{}, Reached: map[string]int{}}
}

// blockCov: which basic blocks (go/ssa) of one function of the code under test were entered by some path of this run.
type blockCov struct {
	File    string `json:"file"`
	Covered string `json:"covered"` // one character per basic block: 1 entered, 0 never entered
	Lines   []int  `json:"first_line_of_block"`
}

func (e *evidence) addBlocks(p *gosym.Program, s *gosym.HarnessSummary) {
	if e.BlockCov == nil {
		e.BlockCov = map[string]*blockCov{}
	}
	for fn, cov := range s.Blocks {
		key := fn
		if o := fn.Origin(); o != nil {
			key = o // instantiations of a generic function share its source
		}
		pos := p.Fset.Position(key.Pos())
		if !pos.IsValid() || !strings.HasPrefix(pos.Filename, repoDir+"/") || strings.HasPrefix(filepath.Base(pos.Filename), "zz_") {
			continue
		}
		name := key.String()
		bc := e.BlockCov[name]
		if bc == nil || len(bc.Covered) != len(cov) {
			bc = &blockCov{File: strings.TrimPrefix(pos.Filename, repoDir+"/"), Covered: strings.Repeat("0", len(cov)), Lines: make([]int, len(cov))}
			for i, b := range fn.Blocks {
				bc.Lines[i] = blockLine(p, b)
			}
			e.BlockCov[name] = bc
		}
		cb := []byte(bc.Covered)
		for i, c := range cov {
			if c {
				cb[i] = '1'
			}
		}
		bc.Covered = string(cb)
	}
}

// blockLine: source line (in /repo's file, not in the instrumented overlay) of the first statement of a basic block.
func blockLine(p *gosym.Program, b *ssa.BasicBlock) int {
	for _, in := range b.Instrs {
		if p.Instrumented {
			// the overlay shifts lines; every statement is preceded by vfPoint(id), whose id maps back to file:line
			if c, ok := in.(*ssa.Call); ok {
				if f := c.Call.StaticCallee(); f != nil && f.Name() == "vfPoint" && len(c.Call.Args) == 1 {
					if k, ok := c.Call.Args[0].(*ssa.Const); ok {
						if at, ok := p.Points[int(k.Int64())]; ok {
							if i := strings.LastIndexByte(at, ':'); i >= 0 {
								n, _ := strconv.Atoi(at[i+1:])
								return n
							}
						}
					}
				}
			}
			continue
		}
		if ip := in.Pos(); ip.IsValid() {
			return p.Fset.Position(ip).Line
		}
	}
	return 0
}

func (e *evidence) addSolver(st interface{}) {
	b, _ := json.Marshal(st)
	var s struct {
		Queries, Sat, Unsat, Unknown, Errors int
		SolverNS                             int64
	}
	json.Unmarshal(b, &s)
	e.Queries += s.Queries
	e.QSat += s.Sat
	e.QUnsat += s.Unsat
	e.QUnknown += s.Unknown
	e.QErrors += s.Errors
	e.SolverS += float64(s.SolverNS) / 1e9
}

func (e *evidence) addHarness(s *gosym.HarnessSummary) {
	e.Harnesses++
	e.Paths += s.Paths
	for k, v := range s.Forks {
		e.ForkKinds[k] += v
		e.Decisions += v
	}
	for k := range s.Funcs {
		e.Funcs[k] = true
	}
	for k, v := range s.Cross {
		if e.Cross == nil {
			e.Cross = map[string]int{}
		}
		e.Cross[k] += v
	}
	for k, v := range s.ByStatus {
		e.StatusCount[k] += v
	}
	d := 0
	for _, v := range s.Asserts {
		d += v
	}
	u := 0
	for _, v := range s.Unknown {
		u += v
	}
	e.Discharged += d
	for _, v := range s.BySolver {
		e.BySolver += v
	}
	e.Inconcl += u
	for k, v := range s.Reached {
		e.Reached[s.Name+"/"+k] += v
	}
	h := map[string]interface{}{"harness": s.Name, "paths": s.Paths, "status": s.ByStatus, "obligations_discharged": s.Asserts,
		"forks": s.Forks, "max_decisions_on_a_path": s.MaxDecision, "ssa_steps": s.Steps,
		"obligations_needing_a_solver_verdict": s.BySolver, "symbolic_inputs_on_a_path_max": s.MaxInputs}
	if len(s.Probed) > 0 {
		pr := map[string]int{}
		for v, n := range s.Probed {
			pr[strconv.Itoa(v)] = n
		}
		h["sizes_or_durations_taken_from_constants_in_the_code_under_test"] = pr
	}
	if len(s.Unknown) > 0 {
		h["inconclusive"] = s.Unknown
	}
	if s.Truncated {
		h["truncated"] = true
	}
	if len(s.Problems) > 0 {
		h["problems"] = s.Problems
	}
	if len(s.Violations) > 0 {
		cx := map[string]int{}
		for k, v := range s.ViolCount {
			cx[k] = v
		}
		h["counterexample_paths"] = cx
	}
	e.PerHarness = append(e.PerHarness, h)
	if len(e.Samples) < 6 && len(s.Samples) > 0 {
		e.Samples = append(e.Samples, map[string]interface{}{"harness": s.Name, "path": s.Samples[len(s.Samples)-1]})
	}
}

func (e *evidence) write(path string) error {
	os.MkdirAll(filepath.Dir(path), 0o755)
	var funcs []string
	for f := range e.Funcs {
		funcs = append(funcs, f)
	}
	sort.Strings(funcs)
	states := e.Paths
	if states < 1 {
		states = 1
	}
	trans := e.Decisions
	if trans < 1 {
		trans = 1
	}
	samples := e.Samples
	if len(samples) == 0 {
		samples = []interface{}{"no path explored"}
	}
	cov := map[string]interface{}{
		"states":                        states,
		"transitions":                   trans,
		"traces_validated_against_impl": e.ReplaysOK,
		"samples":                       samples,
		"rule":                          "states = distinct symbolic paths (decision vectors) explored to completion; transitions = fork decisions (symbolic branches, shape/index case splits, map orders, schedule/select choices); each path's assertions are decided by z3 for all data values at once",
		"functions_encoded":             funcs,
		"harnesses":                     e.PerHarness,
		"paths_by_status":               e.StatusCount,
		"fork_decisions_by_kind":        e.ForkKinds,
		"solver":                        map[string]interface{}{"name": "z3 4.8.12 (incremental, -in)", "queries": e.Queries, "sat": e.QSat, "unsat": e.QUnsat, "unknown": e.QUnknown, "errors": e.QErrors, "solver_time_s": round3(e.SolverS)},
		"bounds":                        e.Bounds,
		"basic_blocks_entered":          e.BlockCov,
		"obligations_discharged":        e.Discharged,
		"obligations_discharged_how":    map[string]interface{}{"by_solver_unsat_verdict": e.BySolver, "reduced_to_true_by_term_rewriting_during_symbolic_execution": e.Discharged - e.BySolver, "note": "an obligation over symbolic values that the hash-consing simplifier reduces to true (e.g. the returned term IS the input term) holds for all values without a query; feasibility queries for assumptions and branches are counted under solver.sat"},
		"cross_checked_with_cvc5":       e.Cross,
		"obligations_inconclusive":      e.Inconcl,
		"reachability_witnesses":        e.Reached,
		"native_replays":                map[string]int{"run": e.Replays, "reproduced": e.ReplaysOK},
		"known_findings_reported":       e.KnownLines,
		"lemmas_failed":                 e.LemmaLines,
		"violations_reported":           e.ViolLines,
		"exhaustive":                    false,
		"trusted_base":                  []string{"gosym symbolic interpreter over go/ssa (x/tools v0.29.0)", "z3 4.8.12", "environment models listed in DESIGN.md §2.5", "harness reference definitions"},
		"load_and_ssa_build_s":          round3(e.LoadS),
	}
	if len(e.Problems) > 0 {
		cov["problems"] = e.Problems
	}
	out := map[string]interface{}{
		"property_id": e.Prop,
		"tier":        e.Tier,
		"seed":        e.Seed,
		"level":       "model_checking",
		"coverage":    cov,
		"assumptions": []string{"bounds stated per harness in DESIGN.md §3/§4; anything outside them is not claimed", "64-bit platform", "standard-library behaviour as modelled (DESIGN.md §2.5)"},
		"wall_s":      round3(e.WallS),
		"violations":  e.Violations,
	}
	b, err := json.MarshalIndent(out, "", " ")
	if err != nil {
		return err
	}
	return os.WriteFile(path, b, 0o644)
}

func round3(f float64) float64 { return float64(int64(f*1000+0.5)) / 1000 }

func propArg(args []string) string {
	for i, a := range args {
		if a == "--prop" || a == "-prop" {
			if i+1 < len(args) {
				return sanitize(args[i+1])
			}
		}
		if strings.HasPrefix(a, "--prop=") {
			return sanitize(strings.TrimPrefix(a, "--prop="))
		}
	}
	return "_none"
}

// cmdSelftest: translator validation. The repository's own unit tests are executed THROUGH the symbolic engine (no
// symbolic inputs: every value is concrete, time is virtual) with testify's assertions intercepted; every assertion
// that holds natively must hold in the engine as well. A test that needs something the engine does not model
// (sockets, httptest) is reported as skipped, not as a failure.
func cmdSelftest(args []string) int {
	fs := flag.NewFlagSet("selftest", flag.ExitOnError)
	verbose := fs.Bool("v", false, "verbose")
	only := fs.String("run", "", "only tests whose name contains this")
	fs.Parse(args)
	total, failed, skipped, asserts := 0, 0, 0, 0
	t0 := time.Now()
	for _, hd := range []string{"root", "worker"} {
		cfg := gosym.LoadConfig{RepoDir: repoDir, PkgDir: pkgDirOf(hd), Tests: true}
		p, err := gosym.Load(cfg)
		if err != nil {
			fmt.Fprintln(os.Stderr, "selftest: load:", err)
			return 2
		}
		entries := p.TestFuncs()
		var sel []*ssa.Function
		for _, e := range entries {
			if flaky[e.Name()] || (*only != "" && !strings.Contains(e.Name(), *only)) {
				continue
			}
			sel = append(sel, e)
		}
		ec := gosym.ExploreConfig{Workers: runtime.NumCPU(), MaxPaths: 4, TimeoutMs: 20000}
		ec.Opt = gosym.Options{MaxSteps: 20000000, LoopBound: 200000, DelayBound: 0, MapOrders: 2, Concrete: true}
		sums, _ := gosym.Explore(p, sel, ec)
		for _, s := range sums {
			total++
			na := 0
			for _, v := range s.Asserts {
				na += v
			}
			asserts += na
			switch {
			case len(s.Problems) > 0:
				skipped++
				fmt.Printf("SKIP  %-45s %s\n", s.Name, firstLine(s.Problems[0]))
			case len(s.Violations) > 0:
				failed++
				for _, l := range gosym.SortedLabels(s.Violations) {
					v := s.Violations[l]
					fmt.Printf("FAIL  %-45s %s at %s %s\n", s.Name, l, v.Pos, v.Msg)
				}
			default:
				if *verbose {
					fmt.Printf("ok    %-45s %d assertions agree\n", s.Name, na)
				}
			}
		}
	}
	fmt.Printf("selftest: %d tests through the engine, %d assertions agree with the native expectations, %d failed, %d skipped (unmodelled environment), %.1fs\n", total, asserts, failed, skipped, time.Since(t0).Seconds())
	if failed > 0 {
		return 2
	}
	return 0
}

// tests the baseline itself lists as flaky / always failing
var flaky = map[string]bool{"TestNewBufferedChannelQueue": true, "TestLinkedListQueue": true, "TestWorkerJamDuration": true}

// replayDir: where the counterexample files of one run go. A run against another tree (VERIF_REPO: seed / refactoring
// regressions, possibly several at once) gets a directory of its own, so that concurrent runs do not delete each
// other's files.
func replayDir(prop string) string {
	if os.Getenv("VERIF_REPO") != "" {
		return filepath.Join(verifDir, "replays", fmt.Sprintf("alt-%d", os.Getpid()), prop)
	}
	return filepath.Join(verifDir, "replays", prop)
}
