package main

import (
	"crypto/sha1"
	"encoding/json"
	"fmt"
	"os"
	"os/exec"
	"path/filepath"
	"regexp"
	"strings"
	"time"

	"verif/engine/gosym"
)

type knownFinding struct {
	Property string `json:"property"`
	Harness  string `json:"harness"`
	Label    string `json:"label"`
	What     string `json:"what"`
}

type knownFile struct {
	Findings []knownFinding      `json:"findings"`
	Fixed    []map[string]string `json:"fixed"`
}

func loadKnown() knownFile {
	var k knownFile
	b, err := os.ReadFile(filepath.Join(verifDir, "known_findings.json"))
	if err == nil {
		json.Unmarshal(b, &k)
	}
	return k
}

type replayFile struct {
	Property  string             `json:"property"`
	PkgDir    string             `json:"pkg_dir"`
	Harness   string             `json:"harness"`
	Label     string             `json:"label"`
	Tier      int                `json:"tier"`
	Msg       string             `json:"msg,omitempty"`
	Pos       string             `json:"pos,omitempty"`
	Inputs    []gosym.InputVal   `json:"inputs"`
	Apps      []gosym.AppVal     `json:"apps"`
	Choices   []int              `json:"choices"`
	Decisions []gosym.Decision   `json:"decisions"`
	Trace     []string           `json:"engine_trace,omitempty"`
	Native    string             `json:"native_replay,omitempty"`
	Retry     bool               `json:"retry"`
	Sched     []gosym.SchedEntry `json:"sched,omitempty"`
	BaseG     int                `json:"base_g"`
}

// decide turns harness summaries into KNOWN-FINDING / VIOLATION lines and an exit code.
func decide(prop, hd string, files []string, pkgName string, sums []*gosym.HarnessSummary, ev *evidence, doReplay bool, instrument bool) int {
	known := loadKnown()
	exit := 0
	tier := 0
	if ev.Tier == "thorough" {
		tier = 1
	}
	type cand struct {
		v    *gosym.Violation
		rf   replayFile
		path string
		alt  bool // a further counterexample for an obligation that already has one
		used bool // (primary) replaced by an alternate that reproduced
	}
	var cands []*cand
	for _, s := range sums {
		if len(s.Problems) > 0 || s.Truncated || len(s.Unknown) > 0 {
			why := ""
			if s.Truncated {
				why = "path bound reached; "
			}
			if len(s.Unknown) > 0 {
				why += fmt.Sprintf("solver unknown/timeouts %v; ", s.Unknown)
			}
			if len(s.Problems) > 0 {
				why += firstLine(s.Problems[0])
			}
			fmt.Printf("INCONCLUSIVE property=%s harness=%s: %s\n", prop, s.Name, why)
			ev.Problems = append(ev.Problems, s.Name+": "+why)
			if exit < 2 {
				exit = 2
			}
		}
		if s.Reached["end"] == 0 && len(s.Violations) == 0 && len(s.Problems) == 0 {
			fmt.Printf("INCONCLUSIVE property=%s harness=%s: vacuous (no path reaches the end witness)\n", prop, s.Name)
			ev.Problems = append(ev.Problems, s.Name+": vacuous")
			if exit < 2 {
				exit = 2
			}
		}
		for _, label := range gosym.SortedLabels(s.Violations) {
			v := s.Violations[label]
			if strings.HasPrefix(label, "lemma/") {
				// schedule-independent lemmas are decided by the engine's access monitor only; a failing lemma is
				// reported but never counted as a violation on its own (DESIGN.md §2.6)
				line := fmt.Sprintf("LEMMA-FAILED property=%s harness=%s %s", prop, v.Harness, label)
				fmt.Println(line)
				ev.LemmaLines = append(ev.LemmaLines, line)
				continue
			}
			rf := replayFile{Property: prop, PkgDir: pkgDirOf(hd), Harness: v.Harness, Label: v.Label, Tier: tier, Msg: v.Msg, Pos: v.Pos,
				Inputs: v.Inputs, Apps: v.Apps, Choices: v.Choices, Decisions: v.Decisions, Trace: v.Trace, Sched: v.Sched, BaseG: v.BaseG}
			for _, d := range v.Decisions {
				if d.Kind == "maporder" || d.Kind == "sched" || d.Kind == "select" || d.Kind == "pool" {
					rf.Retry = true
				}
			}
			b, _ := json.Marshal(rf)
			h := sha1.Sum(b)
			dir := replayDir(prop)
			os.MkdirAll(dir, 0o755)
			path := filepath.Join(dir, fmt.Sprintf("%s-%s-%x.json", strings.TrimPrefix(v.Harness, "vh_"+prop+"_"), sanitize(label), h[:4]))
			os.WriteFile(path, b, 0o644)
			cands = append(cands, &cand{v: v, rf: rf, path: path})
			for _, av := range s.Alternates[label] {
				arf := replayFile{Property: prop, PkgDir: pkgDirOf(hd), Harness: av.Harness, Label: av.Label, Tier: tier, Msg: av.Msg, Pos: av.Pos,
					Inputs: av.Inputs, Apps: av.Apps, Choices: av.Choices, Decisions: av.Decisions, Trace: av.Trace, Sched: av.Sched, BaseG: av.BaseG, Retry: rf.Retry}
				for _, d := range av.Decisions {
					if d.Kind == "maporder" || d.Kind == "sched" || d.Kind == "select" || d.Kind == "pool" {
						arf.Retry = true
					}
				}
				ab, _ := json.Marshal(arf)
				ah := sha1.Sum(ab)
				apath := filepath.Join(dir, fmt.Sprintf("%s-%s-%x.json", strings.TrimPrefix(av.Harness, "vh_"+prop+"_"), sanitize(label), ah[:4]))
				os.WriteFile(apath, ab, 0o644)
				cands = append(cands, &cand{v: av, rf: arf, path: apath, alt: true})
			}
		}
	}
	results := make([]string, len(cands))
	if doReplay && len(cands) > 0 {
		// first batch: the first counterexample of every obligation; second batch (only where needed): the spares of
		// the obligations whose first counterexample did not reproduce
		var paths []string
		var idx []int
		for i, c := range cands {
			if !c.alt {
				paths = append(paths, c.path)
				idx = append(idx, i)
			}
		}
		for k, r := range nativeReplayBatch(pkgDirOf(hd), paths, files, pkgName, instrument) {
			results[idx[k]] = r
		}
		ev.Replays += len(paths)
		paths, idx = nil, nil
		for i := 0; i < len(cands); i++ {
			if cands[i].alt || strings.HasPrefix(results[i], "reproduced") {
				continue
			}
			for j := i + 1; j < len(cands) && cands[j].alt; j++ {
				paths = append(paths, cands[j].path)
				idx = append(idx, j)
			}
		}
		if len(paths) > 0 {
			for k, r := range nativeReplayBatch(pkgDirOf(hd), paths, files, pkgName, instrument) {
				results[idx[k]] = r
			}
			ev.Replays += len(paths)
		}
		for i := range results {
			if results[i] == "" {
				results[i] = "not needed: the first counterexample of this obligation reproduced"
			}
		}
	}
	// an obligation whose first counterexample does not reproduce is represented by the first alternate that does
	if doReplay {
		for i := 0; i < len(cands); i++ {
			if cands[i].alt || strings.HasPrefix(results[i], "reproduced") {
				continue
			}
			for j := i + 1; j < len(cands) && cands[j].alt; j++ {
				if strings.HasPrefix(results[j], "reproduced") {
					cands[i].used = true
					cands[j].alt = false
					break
				}
			}
		}
	}
	for i, c := range cands {
		v := c.v
		label := v.Label
		reproduced := true
		if c.alt || c.used {
			// a spare: either not needed or did not help
			if doReplay {
				c.rf.Native = results[i]
				b, _ := json.MarshalIndent(c.rf, "", " ")
				os.WriteFile(c.path, b, 0o644)
				if !strings.HasPrefix(results[i], "reproduced") && !c.alt {
					ev.Problems = append(ev.Problems, fmt.Sprintf("%s/%s: one counterexample did not reproduce natively, another one did (%s)", v.Harness, label, firstLine(results[i])))
				}
			}
			continue
		}
		if doReplay {
			reproduced = strings.HasPrefix(results[i], "reproduced")
			c.rf.Native = results[i]
			if reproduced {
				ev.ReplaysOK++
			}
			b, _ := json.MarshalIndent(c.rf, "", " ")
			os.WriteFile(c.path, b, 0o644)
		}
		if !reproduced {
			fmt.Printf("ENGINE-DIVERGENCE property=%s harness=%s label=%s: counterexample did not reproduce natively (%s) replay=%s\n", prop, v.Harness, label, firstLine(c.rf.Native), c.path)
			ev.Problems = append(ev.Problems, fmt.Sprintf("%s/%s: counterexample did not reproduce natively", v.Harness, label))
			if exit < 2 {
				exit = 2
			}
			continue
		}
		if kf := matchKnown(known, prop, v.Harness, label); kf != nil {
			line := fmt.Sprintf("KNOWN-FINDING: property=%s %s [%s/%s] e.g. %s", prop, kf.What, v.Harness, label, inputsStr(v))
			fmt.Println(line)
			ev.KnownLines = append(ev.KnownLines, line)
			ev.Known++
			continue
		}
		line := fmt.Sprintf("VIOLATION property=%s replay=%s", prop, c.path)
		fmt.Println(line)
		fmt.Printf("  harness=%s label=%s %s %s inputs: %s\n", v.Harness, label, v.Pos, v.Msg, inputsStr(v))
		ev.ViolLines = append(ev.ViolLines, fmt.Sprintf("%s/%s %s", v.Harness, label, inputsStr(v)))
		ev.Violations++
		if exit < 1 {
			exit = 1
		}
	}
	return exit
}

func sanitize(s string) string {
	return regexp.MustCompile(`[^A-Za-z0-9_.-]+`).ReplaceAllString(s, "_")
}

func matchKnown(k knownFile, prop, harness, label string) *knownFinding {
	for i := range k.Findings {
		f := &k.Findings[i]
		if f.Property == prop && f.Harness == harness && f.Label == label {
			return f
		}
	}
	return nil
}

var vhRe = regexp.MustCompile(`(?m)^func (vh_\w+)\(\)`)

// nativeReplayBatch compiles the same harness files natively (go test -overlay, /repo untouched) with the replay
// implementation of the vf vocabulary and runs the counterexamples; result i starts with "reproduced" on success.
func nativeReplayBatch(pkgRel string, paths []string, files []string, pkgName string, instrument bool) []string {
	results := make([]string, len(paths))
	tmp, err := os.MkdirTemp("", "vfreplay")
	if err != nil {
		for i := range results {
			results[i] = err.Error()
		}
		return results
	}
	defer os.RemoveAll(tmp)
	pkgDir := filepath.Join(repoDir, pkgRel)
	ov := map[string]string{}
	var reg []string
	nid := 0
	instr := func(virtual, real string) (string, error) {
		// returns the file to map `virtual` to: the original, or its instrumented copy
		if !instrument {
			return real, nil
		}
		b, err := os.ReadFile(real)
		if err != nil {
			return "", err
		}
		nb, err := gosym.Instrument(virtual, b, &nid, nil)
		if err != nil {
			return "", err
		}
		out := filepath.Join(tmp, fmt.Sprintf("instr%d_%s", nid, filepath.Base(virtual)))
		return out, os.WriteFile(out, nb, 0o644)
	}
	if instrument {
		dirs := []string{pkgDir}
		if pkgRel != "" {
			dirs = append(dirs, repoDir)
		}
		for _, d := range dirs {
			srcs, _ := filepath.Glob(filepath.Join(d, "*.go"))
			for _, f := range srcs {
				if strings.HasSuffix(f, "_test.go") {
					continue
				}
				out, err := instr(f, f)
				if err != nil {
					results[0] = "instrumentation failed: " + err.Error()
					return results
				}
				ov[f] = out
			}
		}
	}
	for _, f := range files {
		virtual := filepath.Join(pkgDir, "zz_vh_"+strings.TrimSuffix(filepath.Base(f), ".go")+"_test.go")
		out, err := instr(virtual, f)
		if err != nil {
			results[0] = "instrumentation failed: " + err.Error()
			return results
		}
		ov[virtual] = out
		b, _ := os.ReadFile(f)
		for _, m := range vhRe.FindAllSubmatch(b, -1) {
			reg = append(reg, fmt.Sprintf("\t%q: %s,", m[1], m[1]))
		}
	}
	// The native vf runtime (one shared controller/state) lives in the package under test when that is the root
	// package; for a dependent package (worker, network) it lives in the root package, is exported through generated
	// wrappers and reached through generated shims.
	readCommon := func(c string) string {
		b, err := os.ReadFile(filepath.Join(verifDir, "harness", "common", c))
		if err != nil {
			return ""
		}
		return string(b)
	}
	writeTmp := func(name, src string) string {
		real := filepath.Join(tmp, name)
		os.WriteFile(real, []byte(src), 0o644)
		return real
	}
	native := []string{"vf_native.go", "vf_native2.go"}
	tmpl := readCommon("vf_replay_test.go.tmpl")
	tmpl = strings.Replace(tmpl, "package PKG", "package "+pkgName, 1)
	tmpl = strings.Replace(tmpl, "//REGISTRY", strings.Join(reg, "\n"), 1)
	lib := strings.Replace(readCommon("vf_lib.go"), "package PKG", "package "+pkgName, 1)
	ov[filepath.Join(pkgDir, "zz_vf_lib_test.go")] = writeTmp("zz_vf_lib_test.go", lib)
	if pkgRel == "" {
		for _, c := range native {
			src := strings.Replace(readCommon(c), "package PKG", "package "+pkgName, 1)
			name := "zz_" + strings.TrimSuffix(c, ".go") + "_test.go"
			ov[filepath.Join(pkgDir, name)] = writeTmp(name, src)
		}
		tmpl = strings.Replace(tmpl, "//IMPORT", "", 1)
		tmpl = strings.Replace(tmpl, "REPLAYMAIN", "vfReplayMain", 1)
	} else {
		rootName, err := packageName(repoDir)
		if err != nil {
			results[0] = err.Error()
			return results
		}
		modPath := modulePath(repoDir)
		var all string
		for _, c := range native {
			src := strings.Replace(readCommon(c), "package PKG", "package "+rootName, 1)
			name := "zz_" + c // non-test file of the root package
			ov[filepath.Join(repoDir, name)] = writeTmp("root_"+name, src)
			all += src
		}
		exports, shims, err := gosym.VfWrappers(native, []string{strings.Replace(readCommon(native[0]), "package PKG", "package "+rootName, 1), strings.Replace(readCommon(native[1]), "package PKG", "package "+rootName, 1)}, rootName, pkgName, modPath, readCommon("vf_engine.go"))
		if err != nil {
			results[0] = "wrapper generation failed: " + err.Error()
			return results
		}
		ov[filepath.Join(repoDir, "zz_vf_export.go")] = writeTmp("root_zz_vf_export.go", exports)
		ov[filepath.Join(pkgDir, "zz_vf_shim_test.go")] = writeTmp("zz_vf_shim_test.go", shims)
		tmpl = strings.Replace(tmpl, "//IMPORT", fmt.Sprintf("\tvfroot %q", modPath), 1)
		tmpl = strings.Replace(tmpl, "REPLAYMAIN", "vfroot.VfReplayMain", 1)
	}
	ov[filepath.Join(pkgDir, "zz_vf_replay_test.go")] = writeTmp("zz_vf_replay_test.go", tmpl)
	ovb, _ := json.Marshal(map[string]interface{}{"Replace": ov})
	ovPath := filepath.Join(tmp, "overlay.json")
	os.WriteFile(ovPath, ovb, 0o644)
	bin := filepath.Join(tmp, "replay.test")
	build := exec.Command("go", "test", "-c", "-vet=off", "-o", bin, "-overlay", ovPath, ".")
	build.Dir = pkgDir
	build.Env = append(os.Environ(), "GOFLAGS=-mod=mod", "GOPROXY=off", "GOSUMDB=off", "GOTOOLCHAIN=local")
	if out, err := build.CombinedOutput(); err != nil {
		for i := range results {
			results[i] = "replay build failed: " + string(out)
		}
		return results
	}
	run := func(idx []int) string {
		var ps []string
		for _, i := range idx {
			ps = append(ps, paths[i])
		}
		cmd := exec.Command(bin, "-test.run", "^TestVFReplay$", "-test.v", "-test.timeout", "40s")
		cmd.Dir = pkgDir
		cmd.Env = append(os.Environ(), "VF_REPLAY="+strings.Join(ps, ":"), "VF_ATTEMPTS=400")
		done := make(chan struct{})
		var out []byte
		go func() { out, _ = cmd.CombinedOutput(); close(done) }()
		select {
		case <-done:
		case <-time.After(90 * time.Second):
			if cmd.Process != nil {
				cmd.Process.Kill()
			}
			<-done
		}
		return string(out)
	}
	pending := make([]int, len(paths))
	for i := range pending {
		pending[i] = i
	}
	for len(pending) > 0 {
		o := run(pending)
		if os.Getenv("VF_DEBUG") != "" {
			fmt.Println(o)
		}
		got := map[int]bool{}
		begun := -1
		for _, l := range strings.Split(o, "\n") {
			var k int
			if n, _ := fmt.Sscanf(l, "VF-BEGIN %d", &k); n == 1 {
				begun = k
			}
			if strings.HasPrefix(l, "VF-RESULT ") {
				rest := strings.TrimPrefix(l, "VF-RESULT ")
				sp := strings.IndexByte(rest, ' ')
				if sp > 0 {
					fmt.Sscanf(rest[:sp], "%d", &k)
					if k >= 0 && k < len(pending) {
						results[pending[k]] = rest[sp+1:]
						got[k] = true
					}
				}
			}
		}
		if len(got) == len(pending) {
			break
		}
		// the process died (panic in another goroutine, fatal error, timeout) while replaying `begun`
		if begun < 0 || got[begun] {
			for k, i := range pending {
				if !got[k] {
					results[i] = "no result; output tail: " + tail(o, 600)
				}
			}
			break
		}
		i := pending[begun]
		lbl := labelOf(paths[i])
		switch {
		case lbl == "crash" && nativeCrashed(o):
			results[i] = "reproduced: process crashed natively: " + firstPanicLine(o)
		case lbl == "crash" && runawayRecursion(paths[i]) && deepStack(o):
			results[i] = "reproduced: the native run recursed without end until the test deadline (the engine stopped at call depth 400)"
		case lbl == "deadlock" && (strings.Contains(o, "test timed out") || strings.Contains(o, "all goroutines are asleep")):
			results[i] = "reproduced: native run deadlocked / timed out"
		default:
			results[i] = "process died: " + firstPanicLine(o) + " " + tail(o, 300)
		}
		var rest []int
		for k, j := range pending {
			if !got[k] && k != begun {
				rest = append(rest, j)
			}
		}
		pending = rest
	}
	return results
}

func tail(s string, n int) string {
	if len(s) > n {
		return s[len(s)-n:]
	}
	return s
}

func labelOf(path string) string {
	b, err := os.ReadFile(path)
	if err != nil {
		return ""
	}
	var rf replayFile
	json.Unmarshal(b, &rf)
	return rf.Label
}

func firstPanicLine(o string) string {
	for _, l := range strings.Split(o, "\n") {
		if (strings.HasPrefix(l, "panic:") || strings.HasPrefix(l, "fatal error:")) && !strings.Contains(l, "test timed out") {
			return l
		}
	}
	return ""
}

// runawayRecursion: the engine ended this path because the call depth exceeded its limit.
func runawayRecursion(path string) bool {
	b, err := os.ReadFile(path)
	if err != nil {
		return false
	}
	var rf replayFile
	json.Unmarshal(b, &rf)
	for _, l := range rf.Trace {
		if strings.Contains(l, "stack overflow") {
			return true
		}
	}
	return false
}

// deepStack: the goroutine dump of a timed-out replay shows one goroutine hundreds of frames deep in the same
// function - a recursion that has not ended by the test deadline.
func deepStack(o string) bool {
	if !strings.Contains(o, "test timed out") {
		return false
	}
	return strings.Contains(o, "frames elided...")
}

// nativeCrashed: the replay process died of a Go panic or runtime fatal error of its own - not of the test deadline
// (a hang is a deadlock, never the reproduction of a crash).
func nativeCrashed(o string) bool { return firstPanicLine(o) != "" }

func cmdReplay(args []string) int {
	if len(args) < 1 {
		fmt.Fprintln(os.Stderr, "usage: vcheck replay <replay.json>")
		return 2
	}
	b, err := os.ReadFile(args[len(args)-1])
	if err != nil {
		fmt.Fprintln(os.Stderr, err)
		return 2
	}
	var rf replayFile
	if err := json.Unmarshal(b, &rf); err != nil {
		fmt.Fprintln(os.Stderr, err)
		return 2
	}
	hd := rf.PkgDir
	if hd == "" {
		hd = "root"
	}
	files, _ := filepath.Glob(filepath.Join(verifDir, "harness", hd, rf.Property+"_*.go"))
	libs, _ := filepath.Glob(filepath.Join(verifDir, "harness", hd, "lib_*.go"))
	files = append(files, libs...)
	pkgName, err := packageName(filepath.Join(repoDir, rf.PkgDir))
	if err != nil {
		fmt.Fprintln(os.Stderr, err)
		return 2
	}
	out := nativeReplayBatch(rf.PkgDir, []string{args[len(args)-1]}, files, pkgName, wantsInstrument(files))[0]
	ok := strings.HasPrefix(out, "reproduced")
	fmt.Println(out)
	if ok {
		fmt.Printf("VIOLATION property=%s replay=%s\n", rf.Property, args[len(args)-1])
		return 1
	}
	return 0
}

// wantsInstrument: a harness file carrying the marker `// vf:instrument` asks for statement-level scheduling points.
func wantsInstrument(files []string) bool {
	for _, f := range files {
		b, err := os.ReadFile(f)
		if err == nil && strings.Contains(string(b), "// vf:instrument") {
			return true
		}
	}
	return false
}

func modulePath(dir string) string {
	b, err := os.ReadFile(filepath.Join(dir, "go.mod"))
	if err != nil {
		return ""
	}
	for _, l := range strings.Split(string(b), "\n") {
		l = strings.TrimSpace(l)
		if strings.HasPrefix(l, "module ") {
			return strings.TrimSpace(strings.TrimPrefix(l, "module "))
		}
	}
	return ""
}
