package main

import (
	"crypto/sha1"
	"encoding/json"
	"fmt"
	"os"
	"os/exec"
	"path/filepath"
	"regexp"
	"strings"
	"time"

	"verif/engine/gosym"
)

type knownFinding struct {
	Property string `json:"property"`
	Harness  string `json:"harness"`
	Label    string `json:"label"`
	What     string `json:"what"`
}

type knownFile struct {
	Findings []knownFinding      `json:"findings"`
	Fixed    []map[string]string `json:"fixed"`
}

func loadKnown() knownFile {
	var k knownFile
	b, err := os.ReadFile(filepath.Join(verifDir, "known_findings.json"))
	if err == nil {
		json.Unmarshal(b, &k)
	}
	return k
}

type replayFile struct {
	Property  string             `json:"property"`
	PkgDir    string             `json:"pkg_dir"`
	Harness   string             `json:"harness"`
	Label     string             `json:"label"`
	Tier      int                `json:"tier"`
	Msg       string             `json:"msg,omitempty"`
	Pos       string             `json:"pos,omitempty"`
	Inputs    []gosym.InputVal   `json:"inputs"`
	Apps      []gosym.AppVal     `json:"apps"`
	Choices   []int              `json:"choices"`
	Decisions []gosym.Decision   `json:"decisions"`
	Trace     []string           `json:"engine_trace,omitempty"`
	Native    string             `json:"native_replay,omitempty"`
}

// decide turns harness summaries into KNOWN-FINDING / VIOLATION lines and an exit code.
func decide(prop, hd string, files []string, pkgName string, sums []*gosym.HarnessSummary, ev *evidence, doReplay bool) int {
	known := loadKnown()
	exit := 0
	tier := 0
	if ev.Tier == "thorough" {
		tier = 1
	}
	for _, s := range sums {
		if len(s.Problems) > 0 || s.Truncated || len(s.Unknown) > 0 {
			why := ""
			if s.Truncated {
				why = "path bound reached; "
			}
			if len(s.Unknown) > 0 {
				why += fmt.Sprintf("solver unknown/timeouts %v; ", s.Unknown)
			}
			if len(s.Problems) > 0 {
				why += firstLine(s.Problems[0])
			}
			fmt.Printf("INCONCLUSIVE property=%s harness=%s: %s\n", prop, s.Name, why)
			ev.Problems = append(ev.Problems, s.Name+": "+why)
			if exit < 2 {
				exit = 2
			}
		}
		if s.Reached["end"] == 0 && len(s.Violations) == 0 && len(s.Problems) == 0 {
			fmt.Printf("INCONCLUSIVE property=%s harness=%s: vacuous (no path reaches the end witness)\n", prop, s.Name)
			ev.Problems = append(ev.Problems, s.Name+": vacuous")
			if exit < 2 {
				exit = 2
			}
		}
		for _, label := range gosym.SortedLabels(s.Violations) {
			v := s.Violations[label]
			rf := replayFile{Property: prop, PkgDir: pkgDirOf(hd), Harness: v.Harness, Label: v.Label, Tier: tier, Msg: v.Msg, Pos: v.Pos,
				Inputs: v.Inputs, Apps: v.Apps, Choices: v.Choices, Decisions: v.Decisions, Trace: v.Trace}
			b, _ := json.Marshal(rf)
			h := sha1.Sum(b)
			dir := filepath.Join(verifDir, "replays", prop)
			os.MkdirAll(dir, 0o755)
			path := filepath.Join(dir, fmt.Sprintf("%s-%s-%x.json", strings.TrimPrefix(v.Harness, "vh_"+prop+"_"), sanitize(label), h[:4]))
			reproduced := true
			if doReplay {
				ev.Replays++
				ok, out := nativeReplay(rf, files, pkgName)
				rf.Native = out
				reproduced = ok
				if ok {
					ev.ReplaysOK++
				}
			}
			b, _ = json.MarshalIndent(rf, "", " ")
			os.WriteFile(path, b, 0o644)
			if !reproduced {
				fmt.Printf("ENGINE-DIVERGENCE property=%s harness=%s label=%s: counterexample did not reproduce natively (%s) replay=%s\n", prop, v.Harness, label, firstLine(rf.Native), path)
				ev.Problems = append(ev.Problems, fmt.Sprintf("%s/%s: counterexample did not reproduce natively", v.Harness, label))
				if exit < 2 {
					exit = 2
				}
				continue
			}
			if kf := matchKnown(known, prop, v.Harness, label); kf != nil {
				line := fmt.Sprintf("KNOWN-FINDING: property=%s %s [%s/%s] e.g. %s", prop, kf.What, v.Harness, label, inputsStr(v))
				fmt.Println(line)
				ev.KnownLines = append(ev.KnownLines, line)
				ev.Known++
				continue
			}
			line := fmt.Sprintf("VIOLATION property=%s replay=%s", prop, path)
			fmt.Println(line)
			fmt.Printf("  harness=%s label=%s %s %s inputs: %s\n", v.Harness, label, v.Pos, v.Msg, inputsStr(v))
			ev.ViolLines = append(ev.ViolLines, fmt.Sprintf("%s/%s %s", v.Harness, label, inputsStr(v)))
			ev.Violations++
			if exit < 1 {
				exit = 1
			}
		}
	}
	return exit
}

func sanitize(s string) string {
	return regexp.MustCompile(`[^A-Za-z0-9_.-]+`).ReplaceAllString(s, "_")
}

func matchKnown(k knownFile, prop, harness, label string) *knownFinding {
	for i := range k.Findings {
		f := &k.Findings[i]
		if f.Property == prop && f.Harness == harness && f.Label == label {
			return f
		}
	}
	return nil
}

var vhRe = regexp.MustCompile(`(?m)^func (vh_\w+)\(\)`)

// nativeReplay compiles the same harness files natively (go test -overlay, /repo untouched) with the replay
// implementation of the vf vocabulary and runs the counterexample.
func nativeReplay(rf replayFile, files []string, pkgName string) (bool, string) {
	tmp, err := os.MkdirTemp("", "vfreplay")
	if err != nil {
		return false, err.Error()
	}
	defer os.RemoveAll(tmp)
	pkgDir := filepath.Join(repoDir, rf.PkgDir)
	ov := map[string]string{}
	var reg []string
	for _, f := range files {
		ov[filepath.Join(pkgDir, "zz_vh_"+strings.TrimSuffix(filepath.Base(f), ".go")+"_test.go")] = f
		b, _ := os.ReadFile(f)
		for _, m := range vhRe.FindAllSubmatch(b, -1) {
			reg = append(reg, fmt.Sprintf("\t%q: %s,", m[1], m[1]))
		}
	}
	for _, c := range []string{"vf_native.go", "vf_native2.go", "vf_lib.go", "vf_replay_test.go.tmpl"} {
		b, err := os.ReadFile(filepath.Join(verifDir, "harness", "common", c))
		if err != nil {
			return false, err.Error()
		}
		src := strings.Replace(string(b), "package PKG", "package "+pkgName, 1)
		src = strings.Replace(src, "//REGISTRY", strings.Join(reg, "\n"), 1)
		name := "zz_" + strings.TrimSuffix(strings.TrimSuffix(c, ".tmpl"), ".go")
		if !strings.HasSuffix(name, "_test") {
			name += "_test"
		}
		real := filepath.Join(tmp, name+".go")
		os.WriteFile(real, []byte(src), 0o644)
		ov[filepath.Join(pkgDir, name+".go")] = real
	}
	ovb, _ := json.Marshal(map[string]interface{}{"Replace": ov})
	ovPath := filepath.Join(tmp, "overlay.json")
	os.WriteFile(ovPath, ovb, 0o644)
	rb, _ := json.Marshal(rf)
	rp := filepath.Join(tmp, "replay.json")
	os.WriteFile(rp, rb, 0o644)
	attempts := "1"
	for _, d := range rf.Decisions {
		if d.Kind == "maporder" {
			attempts = "300"
		}
	}
	cmd := exec.Command("go", "test", "-v", "-vet=off", "-count=1", "-run", "^TestVFReplay$", "-timeout", "60s", "-overlay", ovPath, ".")
	cmd.Dir = pkgDir
	cmd.Env = append(os.Environ(), "GOFLAGS=-mod=mod", "GOPROXY=off", "GOSUMDB=off", "GOTOOLCHAIN=local", "VF_REPLAY="+rp, "VF_ATTEMPTS="+attempts)
	done := make(chan struct{})
	var out []byte
	go func() { out, _ = cmd.CombinedOutput(); close(done) }()
	select {
	case <-done:
	case <-time.After(180 * time.Second):
		if cmd.Process != nil {
			cmd.Process.Kill()
		}
		<-done
	}
	o := string(out)
	res := ""
	for _, l := range strings.Split(o, "\n") {
		if strings.HasPrefix(l, "VF-RESULT") {
			res = l
		}
	}
	switch {
	case strings.HasPrefix(res, "VF-RESULT reproduced"):
		return true, res
	case rf.Label == "crash" && (strings.Contains(o, "\npanic:") || strings.Contains(o, "fatal error:")):
		return true, "process crashed natively: " + firstPanicLine(o)
	case rf.Label == "deadlock" && (strings.Contains(o, "test timed out") || strings.Contains(o, "all goroutines are asleep")):
		return true, "native run deadlocked / timed out"
	}
	if res == "" {
		if len(o) > 1500 {
			o = o[len(o)-1500:]
		}
		res = "no VF-RESULT line; output tail: " + o
	}
	return false, res
}

func firstPanicLine(o string) string {
	for _, l := range strings.Split(o, "\n") {
		if strings.HasPrefix(l, "panic:") || strings.HasPrefix(l, "fatal error:") {
			return l
		}
	}
	return ""
}

func cmdReplay(args []string) int {
	if len(args) < 1 {
		fmt.Fprintln(os.Stderr, "usage: vcheck replay <replay.json>")
		return 2
	}
	b, err := os.ReadFile(args[len(args)-1])
	if err != nil {
		fmt.Fprintln(os.Stderr, err)
		return 2
	}
	var rf replayFile
	if err := json.Unmarshal(b, &rf); err != nil {
		fmt.Fprintln(os.Stderr, err)
		return 2
	}
	hd := rf.PkgDir
	if hd == "" {
		hd = "root"
	}
	files, _ := filepath.Glob(filepath.Join(verifDir, "harness", hd, rf.Property+"_*.go"))
	libs, _ := filepath.Glob(filepath.Join(verifDir, "harness", hd, "lib_*.go"))
	files = append(files, libs...)
	pkgName, err := packageName(filepath.Join(repoDir, rf.PkgDir))
	if err != nil {
		fmt.Fprintln(os.Stderr, err)
		return 2
	}
	ok, out := nativeReplay(rf, files, pkgName)
	fmt.Println(out)
	if ok {
		fmt.Printf("VIOLATION property=%s replay=%s\n", rf.Property, args[len(args)-1])
		return 1
	}
	return 0
}
