// Package smt: hash-consed SMT terms with an eager simplifier and an SMT-LIB2 printer.
// Sorts: Bool, BitVec w, FloatingPoint (32/64), String. One Ctx per explored path (no locking).
package smt

import (
	"fmt"
	"math"
	"math/big"
	"strings"
)

type SortKind uint8

const (
	SBool SortKind = iota
	SBV
	SFP
	SStr
)

type Sort struct {
	K SortKind
	W int // BV width, or FP total width (32/64)
}

var Bool = Sort{SBool, 0}
var Str = Sort{SStr, 0}

func BV(w int) Sort { return Sort{SBV, w} }
func FP(w int) Sort { return Sort{SFP, w} }

func (s Sort) String() string {
	switch s.K {
	case SBool:
		return "Bool"
	case SBV:
		return fmt.Sprintf("(_ BitVec %d)", s.W)
	case SFP:
		if s.W == 32 {
			return "(_ FloatingPoint 8 24)"
		}
		return "(_ FloatingPoint 11 53)"
	case SStr:
		return "String"
	}
	return "?"
}

type Op uint8

const (
	OConst Op = iota // BV / Bool / FP constant (Val = bits) ; String constant (Name)
	OVar
	OApp // uninterpreted function application, Name = function
	ONot
	OAnd
	OOr
	OEq
	OIte
	OBvAdd
	OBvSub
	OBvMul
	OBvUDiv
	OBvURem
	OBvSDiv
	OBvSRem
	OBvAnd
	OBvOr
	OBvXor
	OBvNot
	OBvNeg
	OBvShl
	OBvLshr
	OBvAshr
	OBvUlt
	OBvUle
	OBvSlt
	OBvSle
	OExtract // A=hi B=lo
	OConcat
	OZext // A = extra bits
	OSext
	// floating point (args are FP sorted unless noted)
	OFpAdd
	OFpSub
	OFpMul
	OFpDiv
	OFpNeg
	OFpLt
	OFpLe
	OFpEq // IEEE ==
	OFpIsNaN
	OFpFromBits // BV -> FP (reinterpret)
	OFpFromSInt // BV -> FP (RNE)
	OFpFromUInt
	OFpToSInt // FP -> BV (RTZ), A = width
	OFpToUInt
	OFpToFp     // FP -> FP other width (RNE)
	OFpRoundRNA // roundToIntegral, ties away from zero
	OFpRoundRTZ // roundToIntegral toward zero
	// strings
	OStrConcat
	OStrLt
)

type Term struct {
	Op   Op
	S    Sort
	Args []*Term
	Val  uint64
	Name string
	A, B int
	ID   int
}

type Ctx struct {
	table map[string]*Term
	n     int
	Funs  map[string]FunDecl
	fresh int
	// UsesFP is set once any floating-point term exists: queries then go to a fresh one-shot solver
	// process (z3's incremental core needs > 60 s for FP conversions that the one-shot tactic decides in 5 s).
	UsesFP bool
}

type FunDecl struct {
	Name string
	Args []Sort
	Ret  Sort
}

func NewCtx() *Ctx {
	return &Ctx{table: map[string]*Term{}, Funs: map[string]FunDecl{}}
}

func (c *Ctx) mk(op Op, s Sort, val uint64, name string, a, b int, args ...*Term) *Term {
	var sb strings.Builder
	fmt.Fprintf(&sb, "%d|%d.%d|%d|%s|%d|%d", op, s.K, s.W, val, name, a, b)
	for _, x := range args {
		fmt.Fprintf(&sb, "|%d", x.ID)
	}
	k := sb.String()
	if t, ok := c.table[k]; ok {
		return t
	}
	c.n++
	if s.K == SFP {
		c.UsesFP = true
	}
	t := &Term{Op: op, S: s, Args: args, Val: val, Name: name, A: a, B: b, ID: c.n}
	c.table[k] = t
	return t
}

func mask(w int) uint64 {
	if w >= 64 {
		return ^uint64(0)
	}
	return (uint64(1) << uint(w)) - 1
}

func sx(v uint64, w int) int64 {
	if w >= 64 {
		return int64(v)
	}
	if v&(1<<uint(w-1)) != 0 {
		return int64(v | ^mask(w))
	}
	return int64(v)
}

// ---- constructors ----

func (c *Ctx) True() *Term  { return c.mk(OConst, Bool, 1, "", 0, 0) }
func (c *Ctx) False() *Term { return c.mk(OConst, Bool, 0, "", 0, 0) }
func (c *Ctx) BoolC(b bool) *Term {
	if b {
		return c.True()
	}
	return c.False()
}
func (c *Ctx) BVC(v uint64, w int) *Term { return c.mk(OConst, BV(w), v&mask(w), "", 0, 0) }
func (c *Ctx) FPC(bits uint64, w int) *Term {
	return c.mk(OConst, FP(w), bits&mask(w), "", 0, 0)
}
func (c *Ctx) F64(f float64) *Term { return c.FPC(math.Float64bits(f), 64) }
func (c *Ctx) F32(f float32) *Term { return c.FPC(uint64(math.Float32bits(f)), 32) }
func (c *Ctx) StrC(s string) *Term { return c.mk(OConst, Str, 0, s, 0, 0) }
func (c *Ctx) Var(name string, s Sort) *Term {
	return c.mk(OVar, s, 0, name, 0, 0)
}
func (c *Ctx) Fresh(prefix string, s Sort) *Term {
	c.fresh++
	return c.Var(fmt.Sprintf("%s!%d", prefix, c.fresh), s)
}
func (c *Ctx) App(name string, ret Sort, args ...*Term) *Term {
	if _, ok := c.Funs[name]; !ok {
		d := FunDecl{Name: name, Ret: ret}
		for _, a := range args {
			d.Args = append(d.Args, a.S)
		}
		c.Funs[name] = d
	}
	return c.mk(OApp, ret, 0, name, 0, 0, args...)
}

func (t *Term) IsConst() bool { return t.Op == OConst }
func (t *Term) IsTrue() bool  { return t.Op == OConst && t.S.K == SBool && t.Val == 1 }
func (t *Term) IsFalse() bool { return t.Op == OConst && t.S.K == SBool && t.Val == 0 }

// Int64 returns the signed value of a constant BV.
func (t *Term) Int64() int64   { return sx(t.Val, t.S.W) }
func (t *Term) Uint64() uint64 { return t.Val }
func (t *Term) Float() float64 {
	if t.S.W == 32 {
		return float64(math.Float32frombits(uint32(t.Val)))
	}
	return math.Float64frombits(t.Val)
}

func (c *Ctx) Not(a *Term) *Term {
	if a.IsConst() {
		return c.BoolC(a.Val == 0)
	}
	if a.Op == ONot {
		return a.Args[0]
	}
	return c.mk(ONot, Bool, 0, "", 0, 0, a)
}

func (c *Ctx) And(a, b *Term) *Term {
	if a.IsConst() {
		if a.Val == 0 {
			return a
		}
		return b
	}
	if b.IsConst() {
		if b.Val == 0 {
			return b
		}
		return a
	}
	if a == b {
		return a
	}
	if a == c.Not(b) {
		return c.False()
	}
	return c.mk(OAnd, Bool, 0, "", 0, 0, a, b)
}

func (c *Ctx) Or(a, b *Term) *Term {
	if a.IsConst() {
		if a.Val == 1 {
			return a
		}
		return b
	}
	if b.IsConst() {
		if b.Val == 1 {
			return b
		}
		return a
	}
	if a == b {
		return a
	}
	if a == c.Not(b) {
		return c.True()
	}
	return c.mk(OOr, Bool, 0, "", 0, 0, a, b)
}

func (c *Ctx) Implies(a, b *Term) *Term { return c.Or(c.Not(a), b) }

func (c *Ctx) Eq(a, b *Term) *Term {
	if a.S != b.S {
		panic(fmt.Sprintf("smt.Eq: sort mismatch %v vs %v", a.S, b.S))
	}
	if a == b {
		if a.S.K == SFP {
			// structural equality on FP is bit-level `=`; identical terms are equal
			return c.True()
		}
		return c.True()
	}
	if a.IsConst() && b.IsConst() {
		if a.S.K == SStr {
			return c.BoolC(a.Name == b.Name)
		}
		return c.BoolC(a.Val == b.Val)
	}
	if a.S.K == SBool {
		if a.IsConst() {
			if a.Val == 1 {
				return b
			}
			return c.Not(b)
		}
		if b.IsConst() {
			if b.Val == 1 {
				return a
			}
			return c.Not(a)
		}
	}
	// eq(ite(c,k1,k2), k) with constants
	if b.IsConst() && a.Op == OIte && a.Args[1].IsConst() && a.Args[2].IsConst() {
		return c.Ite(a.Args[0], c.Eq(a.Args[1], b), c.Eq(a.Args[2], b))
	}
	if a.IsConst() && b.Op == OIte && b.Args[1].IsConst() && b.Args[2].IsConst() {
		return c.Ite(b.Args[0], c.Eq(b.Args[1], a), c.Eq(b.Args[2], a))
	}
	if a.ID > b.ID {
		a, b = b, a
	}
	return c.mk(OEq, Bool, 0, "", 0, 0, a, b)
}

func (c *Ctx) Ite(cond, a, b *Term) *Term {
	if cond.IsConst() {
		if cond.Val == 1 {
			return a
		}
		return b
	}
	if a == b {
		return a
	}
	if a.S.K == SBool {
		if a.IsTrue() && b.IsFalse() {
			return cond
		}
		if a.IsFalse() && b.IsTrue() {
			return c.Not(cond)
		}
		if a.IsTrue() {
			return c.Or(cond, b)
		}
		if a.IsFalse() {
			return c.And(c.Not(cond), b)
		}
		if b.IsTrue() {
			return c.Or(c.Not(cond), a)
		}
		if b.IsFalse() {
			return c.And(cond, a)
		}
	}
	return c.mk(OIte, a.S, 0, "", 0, 0, cond, a, b)
}

func bvFold(op Op, x, y uint64, w int) (uint64, bool) {
	m := mask(w)
	switch op {
	case OBvAdd:
		return (x + y) & m, true
	case OBvSub:
		return (x - y) & m, true
	case OBvMul:
		return (x * y) & m, true
	case OBvAnd:
		return x & y, true
	case OBvOr:
		return x | y, true
	case OBvXor:
		return x ^ y, true
	case OBvUDiv:
		if y == 0 {
			return m, true
		}
		return x / y, true
	case OBvURem:
		if y == 0 {
			return x, true
		}
		return x % y, true
	case OBvSDiv:
		if y == 0 {
			return 0, false
		}
		a, b := sx(x, w), sx(y, w)
		if b == -1 {
			return uint64(-a) & m, true
		}
		return uint64(a/b) & m, true
	case OBvSRem:
		if y == 0 {
			return 0, false
		}
		a, b := sx(x, w), sx(y, w)
		if b == -1 {
			return 0, true
		}
		return uint64(a%b) & m, true
	case OBvShl:
		if y >= uint64(w) {
			return 0, true
		}
		return (x << y) & m, true
	case OBvLshr:
		if y >= uint64(w) {
			return 0, true
		}
		return x >> y, true
	case OBvAshr:
		a := sx(x, w)
		if y >= uint64(w) {
			if a < 0 {
				return m, true
			}
			return 0, true
		}
		return uint64(a>>y) & m, true
	}
	return 0, false
}

// BvBin builds a binary bit-vector operation (both args same width).
func (c *Ctx) BvBin(op Op, a, b *Term) *Term {
	if a.S != b.S || a.S.K != SBV {
		panic(fmt.Sprintf("smt.BvBin(%d): sorts %v %v", op, a.S, b.S))
	}
	w := a.S.W
	if a.IsConst() && b.IsConst() {
		if v, ok := bvFold(op, a.Val, b.Val, w); ok {
			return c.BVC(v, w)
		}
	}
	switch op {
	case OBvAdd, OBvOr, OBvXor:
		if a.IsConst() && a.Val == 0 {
			return b
		}
		if b.IsConst() && b.Val == 0 {
			return a
		}
	case OBvSub, OBvShl, OBvLshr, OBvAshr:
		if b.IsConst() && b.Val == 0 {
			return a
		}
		if op == OBvSub && a == b {
			return c.BVC(0, w)
		}
	case OBvMul:
		if a.IsConst() && a.Val == 1 {
			return b
		}
		if b.IsConst() && b.Val == 1 {
			return a
		}
		if (a.IsConst() && a.Val == 0) || (b.IsConst() && b.Val == 0) {
			return c.BVC(0, w)
		}
	case OBvAnd:
		if (a.IsConst() && a.Val == 0) || (b.IsConst() && b.Val == 0) {
			return c.BVC(0, w)
		}
		if a.IsConst() && a.Val == mask(w) {
			return b
		}
		if b.IsConst() && b.Val == mask(w) {
			return a
		}
	}
	// (x + k1) + k2
	if (op == OBvAdd || op == OBvSub) && b.IsConst() && (a.Op == OBvAdd || a.Op == OBvSub) && a.Args[1].IsConst() {
		k1 := a.Args[1].Val
		if a.Op == OBvSub {
			k1 = -k1
		}
		k2 := b.Val
		if op == OBvSub {
			k2 = -k2
		}
		return c.BvBin(OBvAdd, a.Args[0], c.BVC(k1+k2, w))
	}
	switch op {
	case OBvAdd, OBvMul, OBvAnd, OBvOr, OBvXor:
		if a.ID > b.ID {
			a, b = b, a
		}
	}
	return c.mk(op, a.S, 0, "", 0, 0, a, b)
}

func (c *Ctx) BvCmp(op Op, a, b *Term) *Term {
	if a.S != b.S || a.S.K != SBV {
		panic(fmt.Sprintf("smt.BvCmp(%d): sorts %v %v", op, a.S, b.S))
	}
	w := a.S.W
	if a.IsConst() && b.IsConst() {
		switch op {
		case OBvUlt:
			return c.BoolC(a.Val < b.Val)
		case OBvUle:
			return c.BoolC(a.Val <= b.Val)
		case OBvSlt:
			return c.BoolC(sx(a.Val, w) < sx(b.Val, w))
		case OBvSle:
			return c.BoolC(sx(a.Val, w) <= sx(b.Val, w))
		}
	}
	if a == b {
		return c.BoolC(op == OBvUle || op == OBvSle)
	}
	return c.mk(op, Bool, 0, "", 0, 0, a, b)
}

func (c *Ctx) BvNot(a *Term) *Term {
	if a.IsConst() {
		return c.BVC(^a.Val, a.S.W)
	}
	return c.mk(OBvNot, a.S, 0, "", 0, 0, a)
}
func (c *Ctx) BvNeg(a *Term) *Term {
	if a.IsConst() {
		return c.BVC(-a.Val, a.S.W)
	}
	return c.mk(OBvNeg, a.S, 0, "", 0, 0, a)
}

func (c *Ctx) Extract(hi, lo int, a *Term) *Term {
	w := hi - lo + 1
	if lo == 0 && w == a.S.W {
		return a
	}
	if a.IsConst() {
		return c.BVC(a.Val>>uint(lo), w)
	}
	if (a.Op == OZext || a.Op == OSext) && lo == 0 {
		inner := a.Args[0]
		if w == inner.S.W {
			return inner
		}
		if w < inner.S.W {
			return c.Extract(hi, 0, inner)
		}
		if a.Op == OZext {
			return c.Zext(inner, w)
		}
		return c.Sext(inner, w)
	}
	return c.mk(OExtract, BV(w), 0, "", hi, lo, a)
}

// Zext zero-extends a to width w (w >= a.S.W).
func (c *Ctx) Zext(a *Term, w int) *Term {
	if w == a.S.W {
		return a
	}
	if a.IsConst() {
		return c.BVC(a.Val, w)
	}
	if a.Op == OZext {
		return c.Zext(a.Args[0], w)
	}
	return c.mk(OZext, BV(w), 0, "", w-a.S.W, 0, a)
}

func (c *Ctx) Sext(a *Term, w int) *Term {
	if w == a.S.W {
		return a
	}
	if a.IsConst() {
		return c.BVC(uint64(sx(a.Val, a.S.W)), w)
	}
	if a.Op == OSext {
		return c.Sext(a.Args[0], w)
	}
	if a.Op == OZext {
		return c.Zext(a.Args[0], w)
	}
	return c.mk(OSext, BV(w), 0, "", w-a.S.W, 0, a)
}

// Resize converts a BV to width w, sign- or zero-extending according to `signed` (of the source).
func (c *Ctx) Resize(a *Term, w int, signed bool) *Term {
	switch {
	case w == a.S.W:
		return a
	case w < a.S.W:
		return c.Extract(w-1, 0, a)
	case signed:
		return c.Sext(a, w)
	default:
		return c.Zext(a, w)
	}
}

// ---- floating point ----

func fpFoldable(ts ...*Term) bool {
	for _, t := range ts {
		if !t.IsConst() {
			return false
		}
	}
	return true
}

func (c *Ctx) fpFromFloat(f float64, w int) *Term {
	if w == 32 {
		return c.F32(float32(f))
	}
	return c.F64(f)
}

func (c *Ctx) FpBin(op Op, a, b *Term) *Term {
	if a.S != b.S || a.S.K != SFP {
		panic("smt.FpBin sorts")
	}
	if fpFoldable(a, b) {
		x, y := a.Float(), b.Float()
		if a.S.W == 32 {
			x32, y32 := float32(x), float32(y)
			var r float32
			switch op {
			case OFpAdd:
				r = x32 + y32
			case OFpSub:
				r = x32 - y32
			case OFpMul:
				r = x32 * y32
			case OFpDiv:
				r = x32 / y32
			}
			if !math.IsNaN(float64(r)) {
				return c.F32(r)
			}
		} else {
			var r float64
			switch op {
			case OFpAdd:
				r = x + y
			case OFpSub:
				r = x - y
			case OFpMul:
				r = x * y
			case OFpDiv:
				r = x / y
			}
			if !math.IsNaN(r) {
				return c.F64(r)
			}
		}
	}
	return c.mk(op, a.S, 0, "", 0, 0, a, b)
}

func (c *Ctx) FpNeg(a *Term) *Term {
	if a.IsConst() {
		return c.FPC(a.Val^(1<<uint(a.S.W-1)), a.S.W)
	}
	return c.mk(OFpNeg, a.S, 0, "", 0, 0, a)
}

func (c *Ctx) FpCmp(op Op, a, b *Term) *Term {
	if a.S != b.S || a.S.K != SFP {
		panic("smt.FpCmp sorts")
	}
	if fpFoldable(a, b) {
		x, y := a.Float(), b.Float()
		switch op {
		case OFpLt:
			return c.BoolC(x < y)
		case OFpLe:
			return c.BoolC(x <= y)
		case OFpEq:
			return c.BoolC(x == y)
		}
	}
	return c.mk(op, Bool, 0, "", 0, 0, a, b)
}

func (c *Ctx) FpIsNaN(a *Term) *Term {
	if a.IsConst() {
		return c.BoolC(math.IsNaN(a.Float()))
	}
	return c.mk(OFpIsNaN, Bool, 0, "", 0, 0, a)
}

func (c *Ctx) FpFromBits(a *Term) *Term {
	if a.IsConst() {
		return c.FPC(a.Val, a.S.W)
	}
	return c.mk(OFpFromBits, FP(a.S.W), 0, "", 0, 0, a)
}

func (c *Ctx) FpFromInt(a *Term, signed bool, w int) *Term {
	if a.IsConst() {
		var f float64
		if signed {
			iv := a.Int64()
			if w == 32 {
				return c.F32(float32(iv))
			}
			f = float64(iv)
		} else {
			if w == 32 {
				return c.F32(float32(a.Val))
			}
			f = float64(a.Val)
		}
		return c.F64(f)
	}
	op := OFpFromUInt
	if signed {
		op = OFpFromSInt
	}
	return c.mk(op, FP(w), 0, "", 0, 0, a)
}

// FpToIntRaw: fp.to_sbv / fp.to_ubv with RTZ; only meaningful when in range.
func (c *Ctx) FpToIntRaw(a *Term, signed bool, w int) *Term {
	op := OFpToUInt
	if signed {
		op = OFpToSInt
	}
	return c.mk(op, BV(w), 0, "", w, 0, a)
}

func (c *Ctx) FpToFp(a *Term, w int) *Term {
	if a.S.W == w {
		return a
	}
	if a.IsConst() {
		f := a.Float()
		if !math.IsNaN(f) {
			return c.fpFromFloat(f, w)
		}
	}
	return c.mk(OFpToFp, FP(w), 0, "", 0, 0, a)
}

func (c *Ctx) FpRound(a *Term, away bool) *Term {
	if a.IsConst() {
		f := a.Float()
		if !math.IsNaN(f) {
			if away {
				return c.fpFromFloat(math.Round(f), a.S.W)
			}
			return c.fpFromFloat(math.Trunc(f), a.S.W)
		}
	}
	if away {
		return c.mk(OFpRoundRNA, a.S, 0, "", 0, 0, a)
	}
	return c.mk(OFpRoundRTZ, a.S, 0, "", 0, 0, a)
}

// ---- strings ----

func (c *Ctx) StrConcat(a, b *Term) *Term {
	if a.IsConst() && b.IsConst() {
		return c.StrC(a.Name + b.Name)
	}
	if a.IsConst() && a.Name == "" {
		return b
	}
	if b.IsConst() && b.Name == "" {
		return a
	}
	return c.mk(OStrConcat, Str, 0, "", 0, 0, a, b)
}

func (c *Ctx) StrLt(a, b *Term) *Term {
	if a.IsConst() && b.IsConst() {
		return c.BoolC(a.Name < b.Name)
	}
	return c.mk(OStrLt, Bool, 0, "", 0, 0, a, b)
}

// ---- printing ----

var opNames = map[Op]string{
	ONot: "not", OAnd: "and", OOr: "or", OEq: "=", OIte: "ite",
	OBvAdd: "bvadd", OBvSub: "bvsub", OBvMul: "bvmul", OBvUDiv: "bvudiv", OBvURem: "bvurem",
	OBvSDiv: "bvsdiv", OBvSRem: "bvsrem", OBvAnd: "bvand", OBvOr: "bvor", OBvXor: "bvxor",
	OBvNot: "bvnot", OBvNeg: "bvneg", OBvShl: "bvshl", OBvLshr: "bvlshr", OBvAshr: "bvashr",
	OBvUlt: "bvult", OBvUle: "bvule", OBvSlt: "bvslt", OBvSle: "bvsle", OConcat: "concat",
	OFpNeg: "fp.neg", OFpLt: "fp.lt", OFpLe: "fp.leq", OFpEq: "fp.eq", OFpIsNaN: "fp.isNaN",
	OStrConcat: "str.++", OStrLt: "str.<",
}

func smtString(s string) string {
	var sb strings.Builder
	sb.WriteByte('"')
	for _, r := range s {
		switch {
		case r == '"':
			sb.WriteString(`""`)
		case r < 32 || r > 126 || r == '\\':
			fmt.Fprintf(&sb, `\u{%x}`, r)
		default:
			sb.WriteRune(r)
		}
	}
	sb.WriteByte('"')
	return sb.String()
}

func quoteSym(n string) string { return "|" + n + "|" }

func fpSortArgs(w int) string {
	if w == 32 {
		return "8 24"
	}
	return "11 53"
}

// head returns the printed form of a node given printed children.
func (t *Term) render(ch []string) string {
	switch t.Op {
	case OConst:
		switch t.S.K {
		case SBool:
			if t.Val == 1 {
				return "true"
			}
			return "false"
		case SBV:
			if t.S.W%4 == 0 {
				return fmt.Sprintf("#x%0*x", t.S.W/4, t.Val)
			}
			return fmt.Sprintf("#b%0*b", t.S.W, t.Val)
		case SFP:
			return fmt.Sprintf("((_ to_fp %s) #x%0*x)", fpSortArgs(t.S.W), t.S.W/4, t.Val)
		case SStr:
			return smtString(t.Name)
		}
	case OVar:
		return quoteSym(t.Name)
	case OApp:
		if len(ch) == 0 {
			return quoteSym(t.Name)
		}
		return "(" + quoteSym(t.Name) + " " + strings.Join(ch, " ") + ")"
	case OExtract:
		return fmt.Sprintf("((_ extract %d %d) %s)", t.A, t.B, ch[0])
	case OZext:
		return fmt.Sprintf("((_ zero_extend %d) %s)", t.A, ch[0])
	case OSext:
		return fmt.Sprintf("((_ sign_extend %d) %s)", t.A, ch[0])
	case OFpAdd, OFpSub, OFpMul, OFpDiv:
		n := map[Op]string{OFpAdd: "fp.add", OFpSub: "fp.sub", OFpMul: "fp.mul", OFpDiv: "fp.div"}[t.Op]
		return fmt.Sprintf("(%s RNE %s %s)", n, ch[0], ch[1])
	case OFpFromBits:
		return fmt.Sprintf("((_ to_fp %s) %s)", fpSortArgs(t.S.W), ch[0])
	case OFpFromSInt:
		return fmt.Sprintf("((_ to_fp %s) RNE %s)", fpSortArgs(t.S.W), ch[0])
	case OFpFromUInt:
		return fmt.Sprintf("((_ to_fp_unsigned %s) RNE %s)", fpSortArgs(t.S.W), ch[0])
	case OFpToSInt:
		return fmt.Sprintf("((_ fp.to_sbv %d) RTZ %s)", t.A, ch[0])
	case OFpToUInt:
		return fmt.Sprintf("((_ fp.to_ubv %d) RTZ %s)", t.A, ch[0])
	case OFpToFp:
		return fmt.Sprintf("((_ to_fp %s) RNE %s)", fpSortArgs(t.S.W), ch[0])
	case OFpRoundRNA:
		return fmt.Sprintf("(fp.roundToIntegral RNA %s)", ch[0])
	case OFpRoundRTZ:
		return fmt.Sprintf("(fp.roundToIntegral RTZ %s)", ch[0])
	}
	if n, ok := opNames[t.Op]; ok {
		return "(" + n + " " + strings.Join(ch, " ") + ")"
	}
	panic(fmt.Sprintf("smt.render: op %d", t.Op))
}

// String prints the term fully inlined (for diagnostics / samples; may be large).
func (t *Term) String() string {
	ch := make([]string, len(t.Args))
	for i, a := range t.Args {
		ch[i] = a.String()
	}
	return t.render(ch)
}

// Pretty gives a compact human-readable rendering for evidence samples.
func (t *Term) Pretty() string {
	s := t.String()
	if len(s) > 300 {
		return s[:300] + "…"
	}
	return s
}

// BigVal returns the constant as big.Int (signed or unsigned view).
func (t *Term) BigVal(signed bool) *big.Int {
	if signed {
		return big.NewInt(t.Int64())
	}
	return new(big.Int).SetUint64(t.Val)
}
