package smt

import (
	"bufio"
	"fmt"
	"io"
	"os"
	"os/exec"
	"strings"
	"time"
)

type Result int

const (
	Unsat Result = iota
	Sat
	Unknown
)

func (r Result) String() string { return [...]string{"unsat", "sat", "unknown"}[r] }

// Stats accumulated by a solver process.
type Stats struct {
	Queries  int
	Sat      int
	Unsat    int
	Unknown  int
	Errors   int
	SolverNS int64
}

// Solver drives one long-lived solver process (z3 -in or cvc5 --incremental) over SMT-LIB2.
type Solver struct {
	Name     string
	cmd      *exec.Cmd
	in       io.WriteCloser
	out      *bufio.Reader
	defined  map[int]bool    // term IDs defined at run level
	declV    map[string]bool // vars
	declF    map[string]bool
	active   bool
	seq      int
	St       Stats
	Log      io.Writer // optional transcript
	argv     []string
	timeout  int
	dead     bool
	LastErr  string
	buf      strings.Builder
	asserted []*Term
	OneShots int
	Retries  int
}

func Z3Argv() []string    { return []string{"z3", "-in", "-smt2"} }
func Z3NewArgv() []string { return []string{"z3-new", "-in", "-smt2"} }
func CVC5Argv() []string {
	return []string{"cvc5", "--incremental", "--lang=smt2", "--produce-models", "--strings-exp", "--fp-exp"}
}

func NewSolver(name string, argv []string, timeoutMs int) (*Solver, error) {
	s := &Solver{Name: name, argv: argv, timeout: timeoutMs}
	if err := s.start(); err != nil {
		return nil, err
	}
	return s, nil
}

func (s *Solver) start() error {
	s.cmd = exec.Command(s.argv[0], s.argv[1:]...)
	in, err := s.cmd.StdinPipe()
	if err != nil {
		return err
	}
	out, err := s.cmd.StdoutPipe()
	if err != nil {
		return err
	}
	s.cmd.Stderr = os.Stderr
	if err := s.cmd.Start(); err != nil {
		return err
	}
	s.in = in
	s.out = bufio.NewReaderSize(out, 1<<16)
	s.dead = false
	s.active = false
	s.defined = map[int]bool{}
	s.declV = map[string]bool{}
	s.declF = map[string]bool{}
	s.send("(set-option :produce-models true)")
	if strings.HasPrefix(s.argv[0], "z3") {
		// short soft timeout for the incremental core; undecided queries are retried one-shot with the full limit
		inc := s.timeout
		if inc > 8000 {
			inc = 8000
		}
		s.send(fmt.Sprintf("(set-option :timeout %d)", inc))
	} else {
		s.send("(set-logic ALL)")
	}
	return nil
}

func (s *Solver) Close() {
	if s.cmd != nil && s.cmd.Process != nil {
		s.in.Close()
		s.cmd.Process.Kill()
		s.cmd.Wait()
	}
}

func (s *Solver) restart() {
	s.Close()
	s.start()
}

func (s *Solver) send(line string) {
	if s.Log != nil {
		fmt.Fprintln(s.Log, line)
	}
	s.buf.WriteString(line)
	s.buf.WriteByte('\n')
}

func (s *Solver) flush() {
	if s.buf.Len() == 0 {
		return
	}
	io.WriteString(s.in, s.buf.String())
	s.buf.Reset()
}

// sync flushes and reads all output lines up to a marker.
func (s *Solver) sync() []string {
	s.seq++
	marker := fmt.Sprintf("vfdone%d", s.seq)
	s.send(fmt.Sprintf("(echo \"%s\")", marker))
	s.flush()
	var lines []string
	for {
		line, err := s.out.ReadString('\n')
		if err != nil {
			s.dead = true
			s.LastErr = "solver died: " + err.Error()
			return append(lines, "(error \"solver died\")")
		}
		line = strings.TrimSpace(line)
		if strings.Trim(line, "\"") == marker {
			break
		}
		if line != "" {
			if s.Log != nil {
				fmt.Fprintln(s.Log, "; <- "+line)
			}
			lines = append(lines, line)
		}
	}
	return lines
}

// Reset starts a new run-level scope (all previous assertions and definitions dropped).
func (s *Solver) Reset() {
	if s.dead {
		s.restart()
	}
	if s.active {
		s.send("(pop 1)")
	}
	s.send("(push 1)")
	s.active = true
	s.defined = map[int]bool{}
	s.declV = map[string]bool{}
	s.declF = map[string]bool{}
	s.asserted = nil
}

func (s *Solver) name(t *Term) string {
	switch t.Op {
	case OConst:
		return t.render(nil)
	case OVar:
		return quoteSym(t.Name)
	}
	return fmt.Sprintf("t!%d", t.ID)
}

// define emits declarations/definitions needed for t (iteratively, children first).
func (s *Solver) define(c *Ctx, t *Term) {
	type fr struct {
		t *Term
		i int
	}
	stack := []fr{{t, 0}}
	for len(stack) > 0 {
		f := &stack[len(stack)-1]
		x := f.t
		if x.Op == OConst || s.defined[x.ID] {
			stack = stack[:len(stack)-1]
			continue
		}
		if f.i < len(x.Args) {
			f.i++
			stack = append(stack, fr{x.Args[f.i-1], 0})
			continue
		}
		stack = stack[:len(stack)-1]
		s.defined[x.ID] = true
		switch x.Op {
		case OVar:
			if !s.declV[x.Name] {
				s.declV[x.Name] = true
				s.send(fmt.Sprintf("(declare-const %s %s)", quoteSym(x.Name), x.S))
			}
			continue
		case OApp:
			if !s.declF[x.Name] {
				s.declF[x.Name] = true
				d := c.Funs[x.Name]
				var as []string
				for _, a := range d.Args {
					as = append(as, a.String())
				}
				s.send(fmt.Sprintf("(declare-fun %s (%s) %s)", quoteSym(x.Name), strings.Join(as, " "), d.Ret))
			}
		}
		ch := make([]string, len(x.Args))
		for i, a := range x.Args {
			ch[i] = s.name(a)
		}
		s.send(fmt.Sprintf("(define-fun t!%d () %s %s)", x.ID, x.S, x.render(ch)))
	}
}

// Assert adds t permanently to the current run-level scope.
func (s *Solver) Assert(c *Ctx, t *Term) {
	s.asserted = append(s.asserted, t)
	if c.UsesFP {
		return
	}
	s.define(c, t)
	s.send(fmt.Sprintf("(assert %s)", s.name(t)))
}

func (s *Solver) parseCheck(lines []string) Result {
	res := Unknown
	seen := false
	for _, l := range lines {
		switch {
		case l == "sat":
			res, seen = Sat, true
		case l == "unsat":
			res, seen = Unsat, true
		case l == "unknown" || l == "timeout":
			res, seen = Unknown, true
		case strings.HasPrefix(l, "(error"):
			s.St.Errors++
			s.LastErr = l
			return Unknown
		}
	}
	if !seen {
		s.LastErr = "no answer: " + strings.Join(lines, " / ")
		s.St.Errors++
	}
	return res
}

// Check decides satisfiability of (asserted scope ∧ extra...).
func (s *Solver) Check(c *Ctx, extra ...*Term) Result {
	r, _ := s.CheckModel(c, extra, nil)
	return r
}

// CheckModel is Check plus, when sat, the values of the `want` terms (SMT-LIB value syntax).
func (s *Solver) CheckModel(c *Ctx, extra []*Term, want []*Term) (Result, []string) {
	if c.UsesFP {
		return s.oneShotModel(c, extra, want)
	}
	if len(s.asserted) > 0 && !s.defined[s.asserted[len(s.asserted)-1].ID] && s.asserted[len(s.asserted)-1].Op != OConst {
		// assertions made after the context switched from FP-free to FP and back cannot happen; defensive
	}
	for _, e := range extra {
		s.define(c, e)
	}
	for _, w := range want {
		s.define(c, w)
	}
	s.send("(push 1)")
	for _, e := range extra {
		s.send(fmt.Sprintf("(assert %s)", s.name(e)))
	}
	s.send("(check-sat)")
	t0 := time.Now()
	lines := s.sync()
	s.St.SolverNS += time.Since(t0).Nanoseconds()
	s.St.Queries++
	res := s.parseCheck(lines)
	var vals []string
	switch res {
	case Sat:
		s.St.Sat++
		if len(want) > 0 {
			vals = make([]string, len(want))
			for i, w := range want {
				s.send(fmt.Sprintf("(get-value (%s))", s.name(w)))
				out := strings.Join(s.sync(), " ")
				vals[i] = parseGetValue(out)
			}
		}
	case Unsat:
		s.St.Unsat++
	default:
		// z3's incremental core occasionally gives up (or hits the soft timeout) on a query that a fresh
		// process decides at once: retry one-shot before calling it unknown
		s.St.Queries--
		if !s.dead {
			s.send("(pop 1)")
		}
		s.Retries++
		return s.oneShotModel(c, extra, want)
	}
	if s.dead {
		return Unknown, nil
	}
	s.send("(pop 1)")
	return res, vals
}

// parseGetValue extracts the value from "((name value))".
func parseGetValue(out string) string {
	out = strings.TrimSpace(out)
	if !strings.HasPrefix(out, "((") || !strings.HasSuffix(out, "))") {
		return ""
	}
	in := out[2 : len(out)-2]
	// skip the name token (may be |quoted| or a t!N symbol or a parenthesised const expr)
	i := 0
	switch {
	case strings.HasPrefix(in, "|"):
		i = strings.Index(in[1:], "|") + 2
	case strings.HasPrefix(in, "("):
		depth := 0
		for j, ch := range in {
			if ch == '(' {
				depth++
			} else if ch == ')' {
				depth--
				if depth == 0 {
					i = j + 1
					break
				}
			}
		}
	default:
		i = strings.IndexAny(in, " \t")
		if i < 0 {
			return ""
		}
	}
	return strings.TrimSpace(in[i:])
}

// ParseBV parses "#x.." / "#b.." / "(_ bvN w)" into a uint64.
func ParseBV(v string) (uint64, bool) {
	v = strings.TrimSpace(v)
	var r uint64
	switch {
	case strings.HasPrefix(v, "#x"):
		_, err := fmt.Sscanf(v[2:], "%x", &r)
		return r, err == nil
	case strings.HasPrefix(v, "#b"):
		for _, ch := range v[2:] {
			r = r<<1 | uint64(ch-'0')
		}
		return r, true
	case strings.HasPrefix(v, "(_ bv"):
		_, err := fmt.Sscanf(v[5:], "%d", &r)
		return r, err == nil
	case v == "true":
		return 1, true
	case v == "false":
		return 0, true
	}
	return 0, false
}

// Script renders a standalone SMT-LIB2 script deciding the conjunction of terms (for one-shot / cross-solver runs).
func Script(c *Ctx, terms []*Term, setLogic bool) string {
	var sb strings.Builder
	tmp := &Solver{defined: map[int]bool{}, declV: map[string]bool{}, declF: map[string]bool{}}
	if setLogic {
		sb.WriteString("(set-logic ALL)\n")
	}
	for _, t := range terms {
		tmp.define(c, t)
	}
	sb.WriteString(tmp.buf.String())
	for _, t := range terms {
		fmt.Fprintf(&sb, "(assert %s)\n", tmp.name(t))
	}
	sb.WriteString("(check-sat)\n")
	return sb.String()
}

// OneShot runs a fresh solver process on a script with a wall-clock limit.
func OneShot(argv []string, script string, limit time.Duration) (Result, string) {
	cmd := exec.Command(argv[0], argv[1:]...)
	cmd.Stdin = strings.NewReader(script)
	var out strings.Builder
	cmd.Stdout = &out
	cmd.Stderr = &out
	if err := cmd.Start(); err != nil {
		return Unknown, err.Error()
	}
	done := make(chan error, 1)
	go func() { done <- cmd.Wait() }()
	select {
	case <-done:
	case <-time.After(limit):
		cmd.Process.Kill()
		<-done
		return Unknown, "timeout"
	}
	o := out.String()
	if strings.Contains(o, "(error") {
		return Unknown, o
	}
	for _, l := range strings.Split(o, "\n") {
		switch strings.TrimSpace(l) {
		case "sat":
			return Sat, o
		case "unsat":
			return Unsat, o
		}
	}
	return Unknown, o
}

// oneShotModel decides (asserted ∧ extra) with a fresh solver process.
func (s *Solver) oneShotModel(c *Ctx, extra []*Term, want []*Term) (Result, []string) {
	tmp := &Solver{defined: map[int]bool{}, declV: map[string]bool{}, declF: map[string]bool{}}
	all := append(append([]*Term(nil), s.asserted...), extra...)
	for _, t := range all {
		tmp.define(c, t)
	}
	for _, w := range want {
		tmp.define(c, w)
	}
	var sb strings.Builder
	sb.WriteString("(set-option :produce-models true)\n")
	sb.WriteString(tmp.buf.String())
	for _, t := range all {
		fmt.Fprintf(&sb, "(assert %s)\n", tmp.name(t))
	}
	sb.WriteString("(check-sat)\n")
	for _, w := range want {
		fmt.Fprintf(&sb, "(get-value (%s))\n", tmp.name(w))
	}
	t0 := time.Now()
	limit := time.Duration(s.timeout) * time.Millisecond
	argv := []string{"z3", "-smt2", "-in", fmt.Sprintf("-T:%d", s.timeout/1000+1)}
	cmd := exec.Command(argv[0], argv[1:]...)
	cmd.Stdin = strings.NewReader(sb.String())
	var out strings.Builder
	cmd.Stdout = &out
	cmd.Stderr = &out
	res := Unknown
	if err := cmd.Start(); err == nil {
		done := make(chan error, 1)
		go func() { done <- cmd.Wait() }()
		select {
		case <-done:
		case <-time.After(limit + 2*time.Second):
			cmd.Process.Kill()
			<-done
		}
	}
	s.St.SolverNS += time.Since(t0).Nanoseconds()
	s.St.Queries++
	s.OneShots++
	lines := strings.Split(out.String(), "\n")
	var vals []string
	seen := false
	for _, l := range lines {
		l = strings.TrimSpace(l)
		switch {
		case l == "sat" && !seen:
			res, seen = Sat, true
		case l == "unsat" && !seen:
			res, seen = Unsat, true
		case (l == "unknown" || l == "timeout") && !seen:
			res, seen = Unknown, true
		case strings.HasPrefix(l, "(error") && res == Sat:
			s.St.Errors++
			s.LastErr = l
			res = Unknown
		case strings.HasPrefix(l, "(error") && !seen:
			s.St.Errors++
			s.LastErr = l
			seen = true
		case strings.HasPrefix(l, "((") && res == Sat:
			vals = append(vals, parseGetValue(l))
		}
	}
	switch res {
	case Sat:
		s.St.Sat++
		if len(vals) != len(want) {
			s.LastErr = fmt.Sprintf("one-shot: %d values for %d terms", len(vals), len(want))
			s.St.Errors++
			return Unknown, nil
		}
	case Unsat:
		s.St.Unsat++
	default:
		s.St.Unknown++
	}
	return res, vals
}
