#!/bin/sh
# usage: tools/tryround.sh <seed-dir (patch.diff, zz_demo_test.go)> <property> [harness-filter]
# Evaluates a candidate seeded change BEFORE it is stored: confirms it (tools/confirmseed.sh), then runs the property's
# quick check against a scratch worktree of /repo with the change applied (VERIF_REPO) - /repo itself is untouched.
d="$1"; p="$2"; h="$3"
rel=.; case "$p" in C09) rel=worker;; C17|C18) rel=network;; esac
/verif/tools/confirmseed.sh "$d" "$rel" >/tmp/tryround_$p.confirm 2>&1; c=$?
[ $c -eq 0 ] && echo "confirmed=1" || { echo "confirmed=0: $(tail -1 /tmp/tryround_$p.confirm)"; }
wt=$(mktemp -d /tmp/roundwt_XXXX); rmdir "$wt"
git -C /repo worktree add -q "$wt" HEAD || exit 2
git -C "$wt" apply "$d/patch.diff" || { echo "patch does not apply"; git -C /repo worktree remove --force "$wt"; exit 2; }
if [ -n "$h" ]; then hh="--harness $h"; else hh=""; fi
out=$(cd /verif && VERIF_REPO="$wt" VF_EVIDENCE_DIR=/verif/replays/seedruns bin/vcheck run --prop "$p" --tier quick $hh 2>&1); rc=$?
git -C /repo worktree remove --force "$wt"; git -C /repo worktree prune
n=$(echo "$out" | grep -c "^VIOLATION property=$p ")
if [ $rc -eq 1 ] && [ "$n" -gt 0 ]; then echo "DETECTED $p ($n: $(echo "$out" | grep "^VIOLATION" | sed 's/.*replay=.*\/\([^/]*\)-[0-9a-f]*\.json/\1/' | sort -u | head -4 | tr '\n' ' '))"; else echo "MISSED $p (exit $rc)"; echo "$out" | grep -E "^INCONCL|^ENGINE|^LEMMA|^NOTE|tier=" | cut -c1-300 | head -8; fi
rm -f /tmp/tryround_$p.confirm
