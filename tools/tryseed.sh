#!/bin/sh
# usage: tools/tryseed.sh <patch.diff> <property id> [more property ids...]
# Applies a seeded change to /repo, runs the repo's stable tests and the given checks (quick tier), then undoes it.
patch="$1"; shift
cd /repo || exit 2
if ! git diff --quiet; then echo "repo working tree not clean"; exit 2; fi
git apply "$patch" || { echo "patch does not apply"; exit 2; }
echo "== build"; GOFLAGS=-mod=mod GOPROXY=off go build ./... || { git checkout -- .; exit 3; }
echo "== repo tests"; /verif/tools/repotest.sh
ev=$(mktemp -d /tmp/evsave_XXXX); cp -a /verif/evidence/. "$ev"/   # evidence must describe the unchanged tree: save and restore
for p in "$@"; do
  echo "== check $p"
  (cd /verif && VF_EVIDENCE_DIR=/verif/replays/seedruns bin/vcheck run --prop "$p" --tier quick 2>&1 | grep -E "^VIOLATION|^KNOWN|^INCONCL|^ENGINE|^LEMMA|^C[0-9]+ tier|^  harness" | cut -c1-260 | head -12)
done
cp -a "$ev"/. /verif/evidence/; rm -rf "$ev"
cd /repo && git checkout -- . && git status --short | head -3
