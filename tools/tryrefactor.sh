#!/bin/sh
# usage: tools/tryrefactor.sh <patch.diff> <property id> [tier]
# Applies a (supposedly property-preserving) change in a scratch worktree of /repo, runs the property's check against it
# (VERIF_REPO), prints the verdict lines, removes the worktree. Neither /repo nor the registered evidence is touched.
patch="$1"; p="$2"; tier="${3:-quick}"
wt=$(mktemp -d /tmp/refwt_XXXX); rmdir "$wt"
git -C /repo worktree add -q "$wt" HEAD || exit 2
trap 'git -C /repo worktree remove --force "$wt" 2>/dev/null; git -C /repo worktree prune' EXIT
git -C "$wt" apply "$patch" || { echo "patch does not apply"; exit 2; }
( cd "$wt" && GOFLAGS=-mod=mod GOPROXY=off go build ./... ) || { echo "does not build"; exit 2; }
cd /verif && VERIF_REPO="$wt" VF_EVIDENCE_DIR=/verif/replays/refruns bin/vcheck run --prop "$p" --tier "$tier" 2>&1 | grep -E "^VIOLATION|^KNOWN|^INCONCL|^ENGINE|^LEMMA|^NOTE|^C[0-9]+ tier|vcheck:" | cut -c1-400 | head -20
