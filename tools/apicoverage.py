#!/usr/bin/env python3
"""Which exported functions / methods of /repo are symbolically executed by no check?
Reads functions_encoded from /verif/evidence/*.json (written by the last run of every check)."""
import json, glob, re
enc = set()
for f in glob.glob('/verif/evidence/*.json'):
    for fn in json.load(open(f))['coverage']['functions_encoded']:
        fn = re.sub(r'github\.com/TeaEntityLab/fpGo/v2(/worker|/network)?\.', '', fn)
        enc.add(re.sub(r'\[[^\]]*\]', '', fn))
decl = []
for path in glob.glob('/repo/*.go') + glob.glob('/repo/worker/*.go') + glob.glob('/repo/network/*.go'):
    if path.endswith('_test.go'):
        continue
    for m in re.finditer(r'^func (\((\w+) (\*?)(\w+)(\[[^\]]*\])?\) )?(\w+)', open(path).read(), re.M):
        recv, star, name = m.group(4), m.group(3) or '', m.group(6)
        decl.append((path.split('/repo/')[1], f"({star}{recv}).{name}" if recv else name, name))
miss, tot = {}, 0
for path, key, name in decl:
    if not name[0].isupper():
        continue
    tot += 1
    if key in enc or key.replace('(*', '(') in enc or key.replace('(', '(*', 1) in enc:
        continue
    miss.setdefault(path, []).append(key)
print(f"exported functions/methods declared: {tot}; executed by no check: {sum(len(v) for v in miss.values())}")
for p, v in sorted(miss.items()):
    print(f"{p} ({len(v)}): " + " ".join(v))
