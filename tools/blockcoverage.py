#!/usr/bin/env python3
"""Basic blocks (go/ssa) of the code under test entered by NO check, reported by the source line of the block's first
statement. usage: tools/blockcoverage.py [evidence-dir] [file-substring]
Reads coverage.basic_blocks_entered of every evidence file; the union is taken per (function, line), because the
instrumented and the plain build of a function do not have the same block numbering."""
import json, glob, sys, collections
d = sys.argv[1] if len(sys.argv) > 1 else '/verif/evidence'
flt = sys.argv[2] if len(sys.argv) > 2 else ''
allb, hitb, files = collections.defaultdict(set), collections.defaultdict(set), {}
for f in glob.glob(d + '/*.json'):
    for fn, bc in (json.load(open(f))['coverage'].get('basic_blocks_entered') or {}).items():
        files[fn] = bc['file']
        for ch, line in zip(bc['covered'], bc['first_line_of_block']):
            if line <= 0:
                continue
            allb[fn].add(line)
            if ch == '1':
                hitb[fn].add(line)
tot = sum(len(v) for v in allb.values())
hit = sum(len(hitb[k]) for k in allb)
print(f"functions entered: {len(allb)}; distinct block-start lines: {tot}, entered by some check: {hit} ({100.0*hit/max(tot,1):.1f}%)")
byfile = collections.defaultdict(list)
for fn in allb:
    miss = sorted(allb[fn] - hitb[fn])
    if miss and flt in files[fn]:
        byfile[files[fn]].append((fn.split('/v2')[-1].lstrip('.'), miss))
for f in sorted(byfile):
    print(f"== {f}")
    for fn, lines in sorted(byfile[f], key=lambda x: x[1][0]):
        print(f"   {fn}: lines {lines}")
