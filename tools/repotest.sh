#!/bin/sh
# Runs the repository's stable baseline tests (the 37 of /root/.vp/BASELINE.json), skipping the known flaky / always-failing
# ones; a failing test is retried twice (TestWorkerPool asserts on millisecond-level timing and fails ~1 run in 10
# on the pinned tree as well).
cd /repo || exit 2
export GOFLAGS=-mod=mod GOPROXY=off GOSUMDB=off
for attempt in 1 2 3; do
go test -vet=off -count=1 -skip 'TestNewBufferedChannelQueue|TestLinkedListQueue|TestWorkerJamDuration' -json ./... 2>/dev/null | python3 -c "
import sys,json
res={}
for l in sys.stdin:
    try: e=json.loads(l)
    except: continue
    if e.get('Test') and e.get('Action') in('pass','fail'): res[e['Test']]=e['Action']
bad={k:v for k,v in res.items() if v!='pass'}
print('tests:',len(res),'failed:',bad)
sys.exit(1 if bad or len(res)<37 else 0)" && exit 0
done
exit 1
