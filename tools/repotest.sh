#!/bin/sh
# Runs the repository's stable baseline tests (the 37 of /root/.vp/BASELINE.json), skipping the known flaky / always-failing ones.
cd /repo && GOFLAGS=-mod=mod GOPROXY=off GOSUMDB=off go test -vet=off -count=1 -skip 'TestNewBufferedChannelQueue|TestLinkedListQueue|TestWorkerJamDuration' -json ./... 2>/dev/null | python3 -c "
import sys,json
res={}
for l in sys.stdin:
    try: e=json.loads(l)
    except: continue
    if e.get('Test') and e.get('Action') in('pass','fail'): res[e['Test']]=e['Action']
bad={k:v for k,v in res.items() if v!='pass'}
print('tests:',len(res),'failed:',bad)
sys.exit(1 if bad or len(res)<37 else 0)"
