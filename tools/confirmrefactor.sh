#!/bin/sh
# usage: tools/confirmrefactor.sh <dir with patch.diff, zz_keep_test.go, meta.json>
# Confirms in a scratch worktree: the keep test passes without and with the change; build + stable suite pass with it.
d="$1"; rel=$(python3 -c "import json;print(json.load(open('$d/meta.json'))['test_dir'])")
wt=$(mktemp -d /tmp/confirm_XXXX); rmdir "$wt"
git -C /repo worktree add -q "$wt" HEAD || exit 2
export GOFLAGS=-mod=mod GOPROXY=off GOSUMDB=off
cp "$d"/zz_keep_test.go "$wt/$rel/"
( cd "$wt/$rel" && go test -vet=off -count=1 -run 'TestKeepsProperty' . >/dev/null 2>&1 ); a=$?
( cd "$wt" && git apply "$d/patch.diff" ) || { echo "patch does not apply"; git -C /repo worktree remove --force "$wt"; exit 2; }
( cd "$wt" && go build ./... ) ; b=$?
( cd "$wt/$rel" && go test -vet=off -count=1 -run 'TestKeepsProperty' . >/dev/null 2>&1 ); c=$?
s=1
for i in 1 2 3; do ( cd "$wt" && go test -vet=off -count=1 -skip 'TestNewBufferedChannelQueue|TestLinkedListQueue|TestWorkerJamDuration|TestKeepsProperty' ./... >/dev/null 2>&1 ) && { s=0; break; }; done
git -C /repo worktree remove --force "$wt"
echo "$(basename $d): keep test without change: $a (want 0); build: $b (want 0); keep test with change: $c (want 0); suite with change: $s (want 0)"
[ $a -eq 0 ] && [ $b -eq 0 ] && [ $c -eq 0 ] && [ $s -eq 0 ]
