#!/bin/sh
# usage: tools/confirmseed.sh <dir containing patch.diff and zz_demo_test.go> [pkg-rel-dir-of-demo]
# Confirms in a scratch worktree of /repo: demo passes without the change, fails with it; build + stable suite pass with it.
d="$1"; rel="${2:-.}"
wt=$(mktemp -d /tmp/confirm_XXXX); rmdir "$wt"
git -C /repo worktree add -q "$wt" HEAD || exit 2
export GOFLAGS=-mod=mod GOPROXY=off GOSUMDB=off
cp "$d"/zz_demo_test.go "$wt/$rel/"
( cd "$wt/$rel" && go test -vet=off -count=1 -run 'TestSeededDemo' . >/tmp/confirm_a.log 2>&1 ); a=$?
( cd "$wt" && git apply "$d/patch.diff" ) || { echo "patch does not apply"; git -C /repo worktree remove --force "$wt"; exit 2; }
( cd "$wt" && go build ./... ) ; b=$?
( cd "$wt/$rel" && go test -vet=off -count=1 -run 'TestSeededDemo' . >/tmp/confirm_b.log 2>&1 ); c=$?
s=1
for i in 1 2 3; do ( cd "$wt" && go test -vet=off -count=1 -skip 'TestNewBufferedChannelQueue|TestLinkedListQueue|TestWorkerJamDuration|TestSeededDemo' ./... >/tmp/confirm_c.log 2>&1 ) && { s=0; break; }; done
git -C /repo worktree remove --force "$wt"
echo "demo without change: exit $a (want 0); build with change: $b (want 0); demo with change: exit $c (want !=0); suite with change: $s (want 0)"
[ $a -eq 0 ] && [ $b -eq 0 ] && [ $c -ne 0 ] && [ $s -eq 0 ]
