#!/bin/sh
# usage: tools/allrefactors.sh [tier] [id-substring]
# Applies every stored property-preserving change (/verif/refactors/<id>/patch.diff) in a scratch worktree of /repo and
# runs the checks of the property it was written for and of the properties sharing the touched code. Any VIOLATION line
# or non-zero exit is a FALSE ALARM of the machinery. /repo and the registered evidence are not touched.
tier="${1:-quick}"; filt="$2"
wt=$(mktemp -d /tmp/refwt_XXXX); rmdir "$wt"
git -C /repo worktree add -q "$wt" HEAD || exit 2
trap 'git -C /repo worktree remove --force "$wt" 2>/dev/null; git -C /repo worktree prune' EXIT
bad=0
for d in /verif/refactors/*/; do
  id=$(basename "$d")
  case "$id" in *"$filt"*) ;; *) continue;; esac
  props=$(python3 -c "import json;m=json.load(open('$d/meta.json'));print(' '.join([m['property']]+m['also_run']))")
  git -C "$wt" apply "$d/patch.diff" || { echo "$id: patch does not apply"; bad=1; continue; }
  for p in $props; do
    out=$(cd /verif && VERIF_REPO="$wt" VF_EVIDENCE_DIR=/verif/replays/refruns bin/vcheck run --prop "$p" --tier "$tier" 2>&1); rc=$?
    n=$(echo "$out" | grep -c "^VIOLATION")
    if [ $rc -eq 0 ] && [ "$n" -eq 0 ]; then echo "QUIET       $id / $p $(echo "$out" | grep -c '^NOTE' | sed 's/^0$//; s/^[1-9].*/(white-box lemmas skipped)/')"; else echo "FALSE-ALARM $id / $p (exit $rc): $(echo "$out" | grep -E '^VIOLATION|^INCONCL|^ENGINE|vcheck:' | head -3 | cut -c1-200 | tr '\n' ';')"; bad=1; fi
  done
  git -C "$wt" checkout -q -- .
done
exit $bad
