#!/bin/sh
# usage: tools/allseeds.sh [tier] [id-substring]
# Applies every stored seeded change in turn IN A SCRATCH WORKTREE of /repo (VERIF_REPO points the checks at it), runs
# its property's check, undoes it. One line per seed: DETECTED (exit 1 with VIOLATION lines) or MISSED.
# /repo itself and the evidence of the unchanged tree are not touched. The worktree is removed at the end.
tier="${1:-quick}"; filt="$2"
wt=$(mktemp -d /tmp/seedwt_XXXX); rmdir "$wt"
git -C /repo worktree add -q "$wt" HEAD || exit 2
trap 'git -C /repo worktree remove --force "$wt" 2>/dev/null; git -C /repo worktree prune' EXIT
miss=0
for d in /verif/seeded/*/; do
  id=$(basename "$d")
  case "$id" in *"$filt"*) ;; *) continue;; esac
  p=$(python3 -c "import json;print(json.load(open('$d/meta.json'))['property'])")
  git -C "$wt" apply "$d/patch.diff" || { echo "$id: patch does not apply"; miss=1; continue; }
  out=$(cd /verif && VERIF_REPO="$wt" VF_EVIDENCE_DIR=/verif/replays/seedruns bin/vcheck run --prop "$p" --tier "$tier" 2>&1); rc=$?
  git -C "$wt" checkout -q -- .
  n=$(echo "$out" | grep -c "^VIOLATION property=$p ")
  if [ "$(python3 -c "import json;print(json.load(open('$d/meta.json')).get('expect',''))")" = "lemma" ]; then
    # a change the property does not clearly forbid: expected to show as a failed lemma only, never as a violation
    if [ $rc -eq 0 ] && echo "$out" | grep -q "^LEMMA-FAILED property=$p "; then echo "LEMMA    $id (as decided: not a violation of the property as stated)"; else echo "MISSED   $id (expected LEMMA-FAILED with exit 0, got exit $rc)"; miss=1; fi
    continue
  fi
  if [ $rc -eq 1 ] && [ "$n" -gt 0 ]; then echo "DETECTED $id ($n: $(echo "$out" | grep "^VIOLATION" | sed 's/.*replay=.*\/\([^/]*\)-[0-9a-f]*\.json/\1/' | sort -u | head -3 | tr '\n' ' '))"; else echo "MISSED   $id (exit $rc)"; miss=1; fi
done
exit $miss
