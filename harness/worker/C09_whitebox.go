package worker

import (
	"time"

	fpgo "github.com/TeaEntityLab/fpGo/v2"
)

// vf:instrument

// White-box part of C09: inductive-step lemmas about the pool's unexported counters, from an ARBITRARY counter state
// (symbolic workerCount / workerBusy / workerSizeMaximum constrained only by the representation invariant). A
// counterexample may start from a state no real history reaches, so everything here is a LEMMA: labels start with
// "lemma/", a failure prints LEMMA-FAILED and never VIOLATION. If this file stops compiling against a changed tree
// (internal names changed), the check skips it with a NOTE.

// ---------- (a) counter lemmas from an arbitrary state ----------

func vh_C09_LemmaGenerateWorker() {
	vfSetDelayBound(0)
	q := fpgo.NewBufferedChannelQueue[func()](1, 0, 1)
	p := &DefaultWorkerPool{jobQueue: q, spawnWorkerCh: fpgo.NewChannelQueue[int](1)}
	p.workerCount = vfInt("count")
	p.workerBusy = vfInt("busy")
	p.workerSizeMaximum = vfInt("max")
	m := vfInt("requested")
	vfAssume(vfAnd(0 <= p.workerBusy, vfAnd(p.workerBusy <= p.workerCount, p.workerCount <= p.workerSizeMaximum)))
	before := p.workerCount
	p.generateWorkerWithMaximum(m)
	vfAssert("lemma/count-never-exceeds-maximum", p.workerCount <= p.workerSizeMaximum)
	vfAssert("lemma/count-grows-by-at-most-one", vfOr(p.workerCount == before, p.workerCount == before+1))
	vfAssert("lemma/respects-requested-maximum", vfImplies(before >= m, p.workerCount == before))
	vfAssert("lemma/busy-within-count", p.workerBusy <= p.workerCount)
	vfReach("end")
}

func vh_C09_LemmaTrySpawn() {
	vfSetDelayBound(0)
	k := vfRange("queued", 0, 2)
	q := fpgo.NewBufferedChannelQueue[func()](2, 0, 1)
	for i := 0; i < k; i++ {
		q.Offer(func() {})
	}
	p := &DefaultWorkerPool{jobQueue: q, spawnWorkerCh: fpgo.NewChannelQueue[int](1)}
	p.workerCount = vfRange("count", 0, 2)
	p.workerSizeMaximum = vfInt("max")
	p.workerSizeStandBy = vfInt("standby")
	p.workerBatchSize = vfInt("batch")
	p.workerJamDuration = time.Hour
	p.lastAliveTime = time.Now()
	vfAssume(vfAnd(p.workerSizeMaximum >= 1, p.workerSizeMaximum <= 2))
	vfAssume(vfAnd(0 <= p.workerSizeStandBy, p.workerSizeStandBy <= 3))
	vfAssume(vfAnd(0 <= p.workerBatchSize, p.workerBatchSize <= 2))
	vfAssume(p.workerCount <= p.workerSizeMaximum)
	p.trySpawn()
	vfAssert("lemma/count-never-exceeds-maximum", p.workerCount <= p.workerSizeMaximum)
	vfReach("end")
}
