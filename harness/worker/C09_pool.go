package worker

import (
	"sync"
	"time"

	fpgo "github.com/TeaEntityLab/fpGo/v2"
)

// vf:instrument

// C09: every accepted job runs at most once, and exactly once if the pool stays open, even when other jobs panic; never
// more than workerSizeMaximum jobs run at a time; a panic is reported once to the handler; full / closed pools report
// the documented errors and a rejected job never runs.
// (a) one-step lemmas on the worker counters from an ARBITRARY counter state (symbolic 64-bit values);
// (b) bounded system runs over the real BufferedChannelQueue, spawn loop and workers: workerSizeMaximum 1..2,
//     standby 0..1, queue capacity 1..2 (+ buffer 0..1), <= 3 jobs of which <= 1 panics, idle expiry longer than the run,
//     every schedule with <= 1 preemption (thorough 2) at statement granularity.

type c09Log struct {
	mu         sync.Mutex
	started    map[int]int
	running    int
	maxRunning int
	handled    []interface{}
}

func (l *c09Log) job(id int, panics bool, slow bool) func() {
	return func() {
		l.mu.Lock()
		l.started[id]++
		l.running++
		if l.running > l.maxRunning {
			l.maxRunning = l.running
		}
		l.mu.Unlock()
		if slow {
			// long enough for the spawn loop to have gone idle again (its pass interval is 20 ms)
			time.Sleep(100 * time.Millisecond)
		}
		l.mu.Lock()
		l.running--
		l.mu.Unlock()
		if panics {
			panic(id)
		}
	}
}

func c09Pool(l *c09Log, max, standby, capacity, bufMax int) *DefaultWorkerPool {
	// settings are passed at construction: configuring through the setters afterwards would race with the spawn loop,
	// which starts with the defaults (standby 5, maximum 1000)
	settings := &DefaultWorkerPoolSettings{
		isJobQueueClosedWhenClose: true,
		workerBatchSize:           1,
		workerSizeStandBy:         standby,
		workerSizeMaximum:         max,
		spawnWorkerDuration:       20 * time.Millisecond,
		workerExpiryDuration:      time.Hour,
		workerJamDuration:         time.Hour,
		scheduleRetryInterval:     50 * time.Millisecond,
		panicHandler: func(v interface{}) {
			l.mu.Lock()
			l.handled = append(l.handled, v)
			l.mu.Unlock()
		},
	}
	return NewDefaultWorkerPool(fpgo.NewBufferedChannelQueue[func()](capacity, bufMax, 1), settings)
}

func vh_C09_Run() {
	vfSetMapOrder(2)
	l := &c09Log{started: map[int]int{}}
	max := vfRange("max", 1, 2)
	standby := vfRange("standby", 0, 1)
	capacity := 2
	bufMax := vfRange("bufmax", 0, 1)
	p := c09Pool(l, max, standby, capacity, bufMax)
	jobs := vfRange("jobs", 2, 3)
	panicker := vfRange("panicker", -1, jobs-2) // -1: nobody panics; never the last job
	slowOne := -1
	if vfTier() > 0 {
		slowOne = vfRange("slow", -1, jobs-1)
	} else if panicker >= 0 && vfChoose("late-panic", 2) == 1 {
		slowOne = panicker // the panic happens while the spawn loop is idle
	}
	accepted := make([]bool, jobs)
	for i := 0; i < jobs; i++ {
		err := p.Schedule(l.job(i, i == panicker, i == slowOne))
		vfAssert("schedule-error-kind", err == nil || err == ErrWorkerPoolJobQueueIsFull)
		accepted[i] = err == nil
	}
	vfQuiesce()
	panics := 0
	for i := 0; i < jobs; i++ {
		if accepted[i] {
			vfAssert("accepted-job-ran-exactly-once", l.started[i] == 1)
			if i == panicker {
				panics++
			}
		} else {
			vfAssert("rejected-job-never-ran", l.started[i] == 0)
		}
	}
	vfAssert("never-more-than-maximum-running", l.maxRunning <= max)
	vfAssert("panic-reported-once", len(l.handled) == panics)
	if panics == 1 && len(l.handled) == 1 {
		vfAssert("panic-value", l.handled[0] == interface{}(panicker))
	}
	vfAssert("pool-still-open", !p.IsClosed())
	// a later job is still served after a panic
	late := jobs
	err := p.Schedule(l.job(late, false, false))
	vfQuiesce()
	if err == nil {
		vfAssert("later-job-ran", l.started[late] == 1)
	}
	vfReach("end")
}

func vh_C09_ConcurrentSubmitters() {
	vfSetMapOrder(2)
	l := &c09Log{started: map[int]int{}}
	p := c09Pool(l, vfRange("max", 1, 2), 1, 2, 1)
	accepted := make([]bool, 2)
	var wg sync.WaitGroup
	for s := 0; s < 2; s++ {
		s := s
		wg.Add(1)
		go func() {
			accepted[s] = p.Schedule(l.job(s, false, false)) == nil
			wg.Done()
		}()
	}
	wg.Wait()
	vfQuiesce()
	for s := 0; s < 2; s++ {
		if accepted[s] {
			vfAssert("accepted-job-ran-exactly-once", l.started[s] == 1)
		} else {
			vfAssert("rejected-job-never-ran", l.started[s] == 0)
		}
	}
	vfReach("end")
}

func vh_C09_FullAndClosed() {
	vfSetMapOrder(2)
	l := &c09Log{started: map[int]int{}}
	capacity := vfRange("cap", 1, 2)
	bufMax := vfRange("bufmax", 0, 1)
	// no workers at all (maximum 0): the queue fills up
	p := c09Pool(l, 0, 0, capacity, bufMax)
	room := capacity + bufMax
	for i := 0; i < room+1; i++ {
		err := p.Schedule(l.job(i, false, false))
		if i < room {
			vfAssert("accepted-while-room", err == nil)
		} else {
			vfAssert("full-error", err == ErrWorkerPoolJobQueueIsFull)
		}
	}
	// timeouts of every shape: positive, zero, negative - a refused job is reported as refused, never as accepted
	timeout := []time.Duration{90 * time.Millisecond, 0, -time.Second}[vfChoose("timeout-shape", 3)]
	// (with no time to wait at all, "the queue is full" is as good an answer as "timed out": either, never nil)
	refused := func(err error) bool {
		return err == ErrWorkerPoolScheduleTimeout || (timeout <= 0 && err == ErrWorkerPoolJobQueueIsFull)
	}
	errT := p.ScheduleWithTimeout(l.job(50, false, false), timeout)
	vfAssert("timeout-error", refused(errT))
	inv := NewDefaultInvokable[int](p, func(v int) { l.job(60+v, false, false)() })
	vfAssert("invoke-timeout-error", refused(inv.InvokeWithTimeout(1, timeout)))
	p.Close()
	vfAssert("isclosed", p.IsClosed())
	vfAssert("closed-error", p.Schedule(l.job(70, false, false)) == ErrWorkerPoolIsClosed)
	vfAssert("closed-error-timeout", p.ScheduleWithTimeout(l.job(71, false, false), timeout) == ErrWorkerPoolIsClosed)
	vfAssert("closed-error-timeout", inv.InvokeWithTimeout(2, timeout) == ErrWorkerPoolIsClosed)
	vfQuiesce()
	vfAssert("nothing-ran-without-workers", len(l.started) == 0)
	vfReach("end")
}

// a pool told NOT to close its job queue on Close() must still refuse work once closed, and run none of it
func vh_C09_ClosedPoolKeepingItsQueue() {
	vfSetMapOrder(2)
	l := &c09Log{started: map[int]int{}}
	p := c09Pool(l, 1, vfRange("standby", 0, 1), 2, 1)
	p.SetIsJobQueueClosedWhenClose(false)
	vfAssert("first-job-accepted", p.Schedule(l.job(0, false, false)) == nil)
	vfQuiesce()
	vfAssert("first-job-ran", l.started[0] == 1)
	p.Close()
	vfAssert("isclosed", p.IsClosed())
	vfAssert("closed-error", p.Schedule(l.job(1, false, false)) == ErrWorkerPoolIsClosed)
	vfAssert("closed-error-timeout", p.ScheduleWithTimeout(l.job(2, false, false), 90*time.Millisecond) == ErrWorkerPoolIsClosed)
	NewDefaultInvokable[int](p, func(v int) { l.job(3, false, false)() }).Invoke(7)
	vfQuiesce()
	vfAssert("nothing-submitted-after-close-runs", l.started[1] == 0 && l.started[2] == 0 && l.started[3] == 0)
	vfReach("end")
}

// the panic handler can be replaced while workers already exist: a later panic is reported, once, to the handler that
// is installed when the job panics (not to the one the worker happened to be spawned under), and later jobs still run
func vh_C09_PanicHandlerReplaced() {
	vfSetMapOrder(2)
	l := &c09Log{started: map[int]int{}}
	p := c09Pool(l, vfRange("max", 1, 2), vfRange("standby", 0, 1), 2, 1)
	vfAssert("first-job-accepted", p.Schedule(l.job(0, false, false)) == nil)
	vfQuiesce() // workers exist now
	var second []interface{}
	p.SetPanicHandler(func(v interface{}) {
		l.mu.Lock()
		second = append(second, v)
		l.mu.Unlock()
	})
	vfAssert("panicking-job-accepted", p.Schedule(l.job(1, true, false)) == nil)
	vfAssert("later-job-accepted", p.Schedule(l.job(2, false, false)) == nil)
	vfQuiesce()
	vfAssert("accepted-job-ran-exactly-once", l.started[0] == 1 && l.started[1] == 1 && l.started[2] == 1)
	vfAssert("panic-reported-once-to-the-current-handler", len(second) == 1 && len(l.handled) == 0)
	if len(second) == 1 {
		vfAssert("panic-value", second[0] == interface{}(1))
	}
	vfAssert("pool-still-open", !p.IsClosed())
	vfReach("end")
}

// workers are also created by PreAllocWorkerSize, possibly from several goroutines and alongside the spawn loop: the
// bound on concurrently executing jobs holds all the same
func vh_C09_PreAllocConcurrently() {
	vfSetMapOrder(2)
	l := &c09Log{started: map[int]int{}}
	max := vfRange("max", 1, 2)
	p := c09Pool(l, max, 0, 4, 0)
	var wg sync.WaitGroup
	for g := 0; g < 2; g++ {
		wg.Add(1)
		go func() {
			p.PreAllocWorkerSize(vfRange("prealloc", 1, 3))
			wg.Done()
		}()
	}
	wg.Wait()
	jobs := max + 2
	accepted := 0
	for i := 0; i < jobs; i++ {
		if p.Schedule(l.job(i, false, true)) == nil {
			accepted++
		}
	}
	vfQuiesce()
	ran := 0
	for i := 0; i < jobs; i++ {
		vfAssert("accepted-job-ran-exactly-once", l.started[i] <= 1)
		ran += l.started[i]
	}
	vfAssert("accepted-job-ran-exactly-once", ran == accepted)
	vfAssert("never-more-than-maximum-running", l.maxRunning <= max)
	vfReach("end")
}

// reconfiguring a quiescent pool through its setters: the new maximum is the bound from then on, work is still run
// exactly once, and an Invokable re-pointed at another pool schedules there
func vh_C09_Reconfigured() {
	vfSetMapOrder(2)
	l := &c09Log{started: map[int]int{}}
	p := c09Pool(l, 1, 0, 4, 0)
	vfAssert("first-job-accepted", p.Schedule(l.job(0, false, false)) == nil)
	vfQuiesce()
	newMax := vfRange("new-max", 1, 2)
	switch vfChoose("how", 2) {
	case 0:
		p.SetWorkerSizeMaximum(newMax).SetWorkerSizeStandBy(vfRange("new-standby", 0, 1)).SetWorkerBatchSize(1).
			SetSpawnWorkerDuration(20 * time.Millisecond).SetWorkerExpiryDuration(time.Hour).SetWorkerJamDuration(time.Hour).
			SetScheduleRetryInterval(50 * time.Millisecond)
	default:
		st := p.DefaultWorkerPoolSettings
		st.workerSizeMaximum = newMax
		p.SetDefaultWorkerPoolSettings(st)
	}
	vfQuiesce()
	accepted := 0
	for i := 1; i <= 3; i++ {
		if p.Schedule(l.job(i, false, true)) == nil {
			accepted++
		}
	}
	p2 := c09Pool(l, 1, 0, 2, 0)
	got := -1
	x := vfInt("x")
	inv := NewDefaultInvokable[int](p, func(v int) { got = v })
	inv.SetWorkerPool(p2)
	p.Close()
	inv.Invoke(x) // goes to p2, which is open
	vfQuiesce()
	ran := 0
	for i := 1; i <= 3; i++ {
		vfAssert("accepted-job-ran-exactly-once", l.started[i] <= 1)
		ran += l.started[i]
	}
	vfAssert("never-more-than-maximum-running", l.maxRunning <= newMax)
	vfAssert("invoked-with-its-value", got == x)
	_ = accepted
	vfReach("end")
}

// one worker busy with a slow job, the job channel full, jobs waiting in a buffer of 2: the queue's loader runs
// (and fails to move anything) while they wait; every accepted job still runs exactly once
func vh_C09_BacklogBehindBusyWorker() {
	vfSetMapOrder(2)
	l := &c09Log{started: map[int]int{}}
	p := c09Pool(l, 1, 0, 1, 2)
	accepted := make([]bool, 5)
	gate := make(chan struct{})
	first := l.job(0, false, false)
	accepted[0] = p.Schedule(func() { <-gate; first() }) == nil // keeps the only worker busy until the gate opens
	vfQuiesce()
	for i := 1; i < 5; i++ {
		accepted[i] = p.Schedule(l.job(i, false, false)) == nil
		if i == 2 {
			time.Sleep(30 * time.Millisecond) // let the loader pass over a full channel with one job buffered
		}
	}
	close(gate)
	vfQuiesce()
	for i := 0; i < 5; i++ {
		if accepted[i] {
			vfAssert("accepted-job-ran-exactly-once", l.started[i] == 1)
		} else {
			vfAssert("rejected-job-never-ran", l.started[i] == 0)
		}
	}
	vfAssert("never-more-than-maximum-running", l.maxRunning <= 1)
	vfReach("end")
}

func vh_C09_Invoke() {
	vfSetMapOrder(2)
	l := &c09Log{started: map[int]int{}}
	p := c09Pool(l, 1, 1, 2, 0)
	got := -1
	x := vfInt("x")
	inv := NewDefaultInvokable[int](p, func(v int) { got = v })
	inv.Invoke(x)
	vfQuiesce()
	vfAssert("invoked-with-its-value", got == x)
	got2 := -1
	inv.SetCallee(func(v int) { got2 = v })
	vfAssert("invoke-with-timeout", inv.InvokeWithTimeout(x, time.Second) == nil)
	vfQuiesce()
	vfAssert("second-callee", got2 == x)
	vfReach("end")
}

// two panicking jobs in one run (in a row or around a normal job): each is reported once, the pool survives both, every
// accepted job still runs exactly once and a job scheduled afterwards is served
func vh_C09_TwoPanics() {
	vfSetMapOrder(2)
	l := &c09Log{started: map[int]int{}}
	max := vfRange("max", 1, 2)
	standby := vfRange("standby", 0, 1)
	p := c09Pool(l, max, standby, 2, 1)
	pattern := vfChoose("pattern", 3) // which of the three jobs panic: 0,1 / 0,2 / 1,2
	panics := [][]bool{{true, true, false}, {true, false, true}, {false, true, true}}[pattern]
	slowFirst := vfChoose("first-panic-late", 2) == 1
	accepted := make([]bool, 3)
	for i := 0; i < 3; i++ {
		err := p.Schedule(l.job(i, panics[i], slowFirst && panics[i] && (i == 0 || !panics[0])))
		vfAssert("schedule-error-kind", err == nil || err == ErrWorkerPoolJobQueueIsFull)
		accepted[i] = err == nil
	}
	vfQuiesce()
	want := 0
	for i := 0; i < 3; i++ {
		if accepted[i] {
			vfAssert("accepted-job-ran-exactly-once", l.started[i] == 1)
			if panics[i] {
				want++
			}
		} else {
			vfAssert("rejected-job-never-ran", l.started[i] == 0)
		}
	}
	vfAssert("never-more-than-maximum-running", l.maxRunning <= max)
	vfAssert("panic-reported-once", len(l.handled) == want)
	vfAssert("pool-still-open", !p.IsClosed())
	err := p.Schedule(l.job(3, false, false))
	vfQuiesce()
	if err == nil {
		vfAssert("later-job-ran", l.started[3] == 1)
	}
	vfReach("end")
}
