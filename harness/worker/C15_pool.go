package worker

import (
	"sync"
	"time"

	fpgo "github.com/TeaEntityLab/fpGo/v2"
)

// vf:instrument

// C15 (worker pool part): Close() at any moment relative to Schedule / ScheduleWithTimeout and to the workers and spawn
// loop: no goroutine panics, the panic handler is invoked for nothing (no job panics here), nothing deadlocks, and a
// Schedule that begins after Close returned reports ErrWorkerPoolIsClosed and its job never runs.

func c15Pool(handled *int, ran *int, mu *sync.Mutex) *DefaultWorkerPool {
	settings := &DefaultWorkerPoolSettings{
		isJobQueueClosedWhenClose: true,
		workerBatchSize:           1,
		workerSizeStandBy:         vfRange("standby", 0, 1),
		workerSizeMaximum:         1,
		spawnWorkerDuration:       20 * time.Millisecond,
		workerExpiryDuration:      time.Hour,
		workerJamDuration:         time.Hour,
		scheduleRetryInterval:     50 * time.Millisecond,
		panicHandler: func(v interface{}) {
			mu.Lock()
			*handled++
			mu.Unlock()
		},
	}
	return NewDefaultWorkerPool(fpgo.NewBufferedChannelQueue[func()](1, 1, 1), settings)
}

func vh_C15_Pool_Schedule() {
	var mu sync.Mutex
	handled, ran := 0, 0
	p := c15Pool(&handled, &ran, &mu)
	job := func() { mu.Lock(); ran++; mu.Unlock() }
	if vfChoose("warm", 2) == 1 {
		p.Schedule(job) // a worker exists and idles on the job channel when the close arrives
		vfQuiesce()
	}
	before := ran
	var err error
	withTimeout := vfChoose("with-timeout", 2) == 1
	var wg sync.WaitGroup
	wg.Add(2)
	go func() {
		if withTimeout {
			err = p.ScheduleWithTimeout(job, 150*time.Millisecond)
		} else {
			err = p.Schedule(job)
		}
		wg.Done()
	}()
	go func() { p.Close(); wg.Done() }()
	wg.Wait()
	vfQuiesce()
	vfAssert("error-kind", err == nil || err == ErrWorkerPoolIsClosed || err == fpgo.ErrQueueIsClosed)
	vfAssert("job-at-most-once", ran-before <= 1)
	vfAssert("panic-handler-not-invoked", handled == 0)
	vfAssert("isclosed", p.IsClosed())
	after := ran
	vfAssert("schedule-after-close-reports-closed", p.Schedule(job) == ErrWorkerPoolIsClosed)
	vfAssert("schedule-with-timeout-after-close-reports-closed", p.ScheduleWithTimeout(job, 150*time.Millisecond) == ErrWorkerPoolIsClosed)
	p.Close() // closing twice is harmless
	vfQuiesce()
	vfAssert("no-job-runs-after-close", ran == after)
	vfAssert("panic-handler-still-not-invoked", handled == 0)
	vfReach("end")
}
