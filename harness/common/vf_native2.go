package PKG

import (
	"reflect"
	"runtime"
	"strconv"
	"strings"
	"unsafe"
)

// vfUnsafeCopy reads a value obtained through an unexported field.
func vfUnsafeCopy(c reflect.Value) reflect.Value {
	if !c.CanAddr() {
		return reflect.Zero(c.Type())
	}
	return reflect.NewAt(c.Type(), unsafe.Pointer(c.UnsafeAddr())).Elem()
}

func vfGID() int {
	var buf [64]byte
	n := runtime.Stack(buf[:], false)
	f := strings.Fields(string(buf[:n]))
	if len(f) >= 2 {
		id, _ := strconv.Atoi(f[1])
		return id
	}
	return -1
}
