package PKG

// Helpers shared by the symbolic run and the native replay (plain Go over the vf vocabulary).

// vfNoPanic: obligation that f does not panic. Returns false (after recording the failure) when it did.
func vfNoPanic(label string, f func()) (ok bool) {
	defer func() {
		if r := recover(); r != nil {
			ok = false
			vfLog("panic:", r)
			vfAssert(label, false)
		}
	}()
	f()
	return true
}

// vfPanics reports whether f panics (no obligation).
func vfPanics(f func()) (p bool) {
	defer func() {
		if r := recover(); r != nil {
			p = true
		}
	}()
	f()
	return false
}

// vfIntIn: arbitrary int constrained to [lo,hi] (symbolic; no fork).
func vfIntIn(name string, lo, hi int) int {
	v := vfInt(name)
	vfAssume(vfAnd(lo <= v, v <= hi))
	return v
}
