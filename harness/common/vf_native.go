package PKG

// Native implementation of the harness vocabulary, used to REPLAY a solver counterexample against the
// natively compiled code: inputs come from the solver's model (VF_REPLAY json), uninterpreted functions
// from the model's finite tables, vfChoose/vfRange from the recorded choices.

import (
	"context"
	"encoding/json"
	"fmt"
	"math"
	"os"
	"reflect"
	"runtime/debug"
	"strconv"
	"strings"
	"sync"
	"time"
)

type vfInputVal struct {
	Name string `json:"name"`
	Type string `json:"type"`
	Val  string `json:"val"`
	Bits uint64 `json:"bits"`
}
type vfAppVal struct {
	Fn   string   `json:"fn"`
	Args []uint64 `json:"args"`
	Ret  uint64   `json:"ret"`
}
type vfReplayData struct {
	Harness string         `json:"harness"`
	Label   string         `json:"label"`
	Tier    int            `json:"tier"`
	Inputs  []vfInputVal   `json:"inputs"`
	Apps    []vfAppVal     `json:"apps"`
	Choices []int          `json:"choices"`
	Retry   bool           `json:"retry"`
	Sched   []vfSchedEntry `json:"sched"`
	BaseG   int            `json:"base_g"`
}

type vfStop struct{ why string }

var vfState struct {
	mu       sync.Mutex
	data     vfReplayData
	inputs   map[string]uint64
	strs     map[string]string
	nameCnt  map[string]int
	choiceIx int
	failed   []string
	reached  map[string]int
	diverged string
	snaps    [][]vfSnapCell
	logs     []string
}

func vfLoad(path string) error {
	b, err := os.ReadFile(path)
	if err != nil {
		return err
	}
	return json.Unmarshal(b, &vfState.data)
}

func vfResetRun() {
	vfState.inputs = map[string]uint64{}
	vfState.strs = map[string]string{}
	for _, in := range vfState.data.Inputs {
		vfState.inputs[in.Name] = in.Bits
		if in.Type == "string" {
			var s string
			if len(in.Val) >= 2 {
				s = in.Val[1 : len(in.Val)-1]
			}
			vfState.strs[in.Name] = s
		}
	}
	vfState.nameCnt = map[string]int{}
	vfState.choiceIx = 0
	vfState.failed = nil
	vfState.reached = map[string]int{}
	vfState.diverged = ""
	vfState.snaps = nil
	vfState.logs = nil
}

func vfBits(name string) uint64 {
	vfState.mu.Lock()
	defer vfState.mu.Unlock()
	k := vfState.nameCnt[name]
	vfState.nameCnt[name] = k + 1
	return vfState.inputs[fmt.Sprintf("%s#%d", name, k)]
}

func vfInt(name string) int         { return int(vfBits(name)) }
func vfInt8(name string) int8       { return int8(vfBits(name)) }
func vfInt16(name string) int16     { return int16(vfBits(name)) }
func vfInt32(name string) int32     { return int32(vfBits(name)) }
func vfInt64(name string) int64     { return int64(vfBits(name)) }
func vfUint(name string) uint       { return uint(vfBits(name)) }
func vfUint8(name string) uint8     { return uint8(vfBits(name)) }
func vfUint16(name string) uint16   { return uint16(vfBits(name)) }
func vfUint32(name string) uint32   { return uint32(vfBits(name)) }
func vfUint64(name string) uint64   { return vfBits(name) }
func vfUintptr(name string) uintptr { return uintptr(vfBits(name)) }
func vfFloat32(name string) float32 { return math.Float32frombits(uint32(vfBits(name))) }
func vfFloat64(name string) float64 { return math.Float64frombits(vfBits(name)) }
func vfBool(name string) bool       { return vfBits(name) != 0 }
func vfStr(name string) string {
	vfState.mu.Lock()
	defer vfState.mu.Unlock()
	k := vfState.nameCnt[name]
	vfState.nameCnt[name] = k + 1
	return vfState.strs[fmt.Sprintf("%s#%d", name, k)]
}
func vfNumStr(v int64) string { return fmt.Sprint(v) }

func vfAssume(c bool) {
	if !c {
		vfState.diverged = "assumption false under the model"
		panic(vfStop{"assume"})
	}
}

func vfAssert(label string, c bool) {
	if !c {
		vfState.mu.Lock()
		vfState.failed = append(vfState.failed, label)
		vfState.mu.Unlock()
		// like the symbolic run, later obligations are still evaluated
	}
}

func vfReach(label string) {
	vfState.mu.Lock()
	vfState.reached[label]++
	vfState.mu.Unlock()
}

func vfNextChoice() int {
	vfState.mu.Lock()
	defer vfState.mu.Unlock()
	if vfState.choiceIx >= len(vfState.data.Choices) {
		return 0
	}
	v := vfState.data.Choices[vfState.choiceIx]
	vfState.choiceIx++
	return v
}

func vfChoose(name string, n int) int                   { return vfNextChoice() }
func vfRange(name string, lo, hi int) int               { return vfNextChoice() }
func vfProbe(name string, funcs string, lo, hi int) int { return vfNextChoice() }
func vfProbeDuration(name string, funcs string, base time.Duration) time.Duration {
	return time.Duration(vfNextChoice())
}
func vfConcrete(x int) int               { return x }
func vfCtxDone(ctx context.Context) bool { return ctx != nil && ctx.Err() != nil }
func vfTier() int                        { return vfState.data.Tier }

func vfLookupApp(name string, args []int) uint64 {
	for _, a := range vfState.data.Apps {
		if a.Fn != name || len(a.Args) != len(args) {
			continue
		}
		ok := true
		for i := range args {
			if uint64(args[i]) != a.Args[i] {
				ok = false
				break
			}
		}
		if ok {
			return a.Ret
		}
	}
	return 0
}

func vfFn(name string, args ...int) int    { return int(vfLookupApp(name, args)) }
func vfPred(name string, args ...int) bool { return vfLookupApp(name, args) != 0 }

func vfAnd(a, b bool) bool     { return a && b }
func vfOr(a, b bool) bool      { return a || b }
func vfImplies(a, b bool) bool { return !a || b }
func vfIte(c bool, a, b int) int {
	if c {
		return a
	}
	return b
}
func vfIteBool(c, a, b bool) bool {
	if c {
		return a
	}
	return b
}

func vfLog(msg string, args ...interface{}) {
	vfState.mu.Lock()
	vfState.logs = append(vfState.logs, fmt.Sprint(append([]interface{}{msg}, args...)...))
	vfState.mu.Unlock()
}

// ---- structural equality mirroring gosym.deepEq ----

func vfEq(a, b interface{}) bool {
	return vfDeepEq(reflect.ValueOf(a), reflect.ValueOf(b), map[[2]uintptr]bool{})
}

func vfDeepEq(a, b reflect.Value, seen map[[2]uintptr]bool) bool {
	if !a.IsValid() || !b.IsValid() {
		return a.IsValid() == b.IsValid()
	}
	if a.Type() != b.Type() {
		return false
	}
	switch a.Kind() {
	case reflect.Interface:
		if a.IsNil() || b.IsNil() {
			return a.IsNil() == b.IsNil()
		}
		return vfDeepEq(a.Elem(), b.Elem(), seen)
	case reflect.Ptr:
		if a.IsNil() || b.IsNil() {
			return a.IsNil() == b.IsNil()
		}
		k := [2]uintptr{a.Pointer(), b.Pointer()}
		if a.Pointer() == b.Pointer() || seen[k] {
			return true
		}
		seen[k] = true
		return vfDeepEq(a.Elem(), b.Elem(), seen)
	case reflect.Slice:
		if a.Len() != b.Len() {
			return false
		}
		for i := 0; i < a.Len(); i++ {
			if !vfDeepEq(a.Index(i), b.Index(i), seen) {
				return false
			}
		}
		return true
	case reflect.Array:
		for i := 0; i < a.Len(); i++ {
			if !vfDeepEq(a.Index(i), b.Index(i), seen) {
				return false
			}
		}
		return true
	case reflect.Struct:
		for i := 0; i < a.NumField(); i++ {
			if !vfDeepEq(a.Field(i), b.Field(i), seen) {
				return false
			}
		}
		return true
	case reflect.Map:
		if a.Len() != b.Len() {
			return false
		}
		for _, k := range a.MapKeys() {
			bv := b.MapIndex(k)
			if !bv.IsValid() || !vfDeepEq(a.MapIndex(k), bv, seen) {
				return false
			}
		}
		return true
	case reflect.Func:
		return a.IsNil() && b.IsNil() || a.Pointer() == b.Pointer()
	case reflect.Chan, reflect.UnsafePointer:
		return a.Pointer() == b.Pointer()
	case reflect.Bool:
		return a.Bool() == b.Bool()
	case reflect.Int, reflect.Int8, reflect.Int16, reflect.Int32, reflect.Int64:
		return a.Int() == b.Int()
	case reflect.Uint, reflect.Uint8, reflect.Uint16, reflect.Uint32, reflect.Uint64, reflect.Uintptr:
		return a.Uint() == b.Uint()
	case reflect.Float32, reflect.Float64:
		return a.Float() == b.Float()
	case reflect.Complex64, reflect.Complex128:
		return a.Complex() == b.Complex()
	case reflect.String:
		return a.String() == b.String()
	}
	return false
}

// ---- snapshots: every cell reachable from the roots keeps its (shallow) value ----

type vfSnapCell struct {
	cell reflect.Value // addressable
	old  reflect.Value // copy
	m    reflect.Value // map (for length)
	n    int
}

func vfSnapWalk(v reflect.Value, cells *[]vfSnapCell, seen map[uintptr]bool) {
	if !v.IsValid() {
		return
	}
	switch v.Kind() {
	case reflect.Interface:
		if !v.IsNil() {
			vfSnapWalk(v.Elem(), cells, seen)
		}
	case reflect.Ptr:
		if v.IsNil() || seen[v.Pointer()] {
			return
		}
		seen[v.Pointer()] = true
		vfSnapCellRec(v.Elem(), cells, seen)
	case reflect.Slice:
		if v.IsNil() {
			return
		}
		full := v.Slice3(0, v.Cap(), v.Cap())
		for i := 0; i < full.Len(); i++ {
			e := full.Index(i)
			if e.CanAddr() && !seen[e.Addr().Pointer()] || e.Type().Size() == 0 {
				if e.Type().Size() != 0 {
					seen[e.Addr().Pointer()] = true
				}
				vfSnapCellRec(e, cells, seen)
			}
		}
	case reflect.Struct:
		for i := 0; i < v.NumField(); i++ {
			vfSnapWalk(v.Field(i), cells, seen)
		}
	case reflect.Array:
		for i := 0; i < v.Len(); i++ {
			vfSnapWalk(v.Index(i), cells, seen)
		}
	case reflect.Map:
		if v.IsNil() || seen[v.Pointer()] {
			return
		}
		seen[v.Pointer()] = true
		*cells = append(*cells, vfSnapCell{m: v, n: v.Len()})
		for _, k := range v.MapKeys() {
			val := v.MapIndex(k)
			cp := reflect.New(val.Type()).Elem()
			cp.Set(val)
			*cells = append(*cells, vfSnapCell{m: v, n: -1, cell: k, old: cp})
			vfSnapWalk(val, cells, seen)
		}
	}
}

func vfSnapCellRec(c reflect.Value, cells *[]vfSnapCell, seen map[uintptr]bool) {
	switch c.Kind() {
	case reflect.Struct:
		for i := 0; i < c.NumField(); i++ {
			vfSnapCellRec(c.Field(i), cells, seen)
		}
		return
	case reflect.Array:
		for i := 0; i < c.Len(); i++ {
			vfSnapCellRec(c.Index(i), cells, seen)
		}
		return
	}
	cp := reflect.New(c.Type()).Elem()
	if c.CanInterface() {
		cp.Set(c)
	} else {
		cp = vfUnsafeCopy(c)
	}
	*cells = append(*cells, vfSnapCell{cell: c, old: cp})
	vfSnapWalk(c, cells, seen)
}

func vfSnapshot(roots ...interface{}) int {
	var cells []vfSnapCell
	seen := map[uintptr]bool{}
	for _, r := range roots {
		vfSnapWalk(reflect.ValueOf(r), &cells, seen)
	}
	vfState.snaps = append(vfState.snaps, cells)
	return len(vfState.snaps) - 1
}

func vfShallowSame(a, b reflect.Value) bool {
	switch a.Kind() {
	case reflect.Ptr, reflect.Chan, reflect.UnsafePointer, reflect.Func, reflect.Map:
		if a.IsNil() || b.IsNil() {
			return a.IsNil() == b.IsNil()
		}
		return a.Pointer() == b.Pointer()
	case reflect.Slice:
		if a.IsNil() || b.IsNil() {
			return a.IsNil() == b.IsNil()
		}
		return a.Pointer() == b.Pointer() && a.Len() == b.Len() && a.Cap() == b.Cap()
	case reflect.Interface:
		if a.IsNil() || b.IsNil() {
			return a.IsNil() == b.IsNil()
		}
		if a.Elem().Type() != b.Elem().Type() {
			return false
		}
		return vfShallowSame(a.Elem(), b.Elem())
	case reflect.Struct:
		for i := 0; i < a.NumField(); i++ {
			if !vfShallowSame(a.Field(i), b.Field(i)) {
				return false
			}
		}
		return true
	case reflect.Array:
		for i := 0; i < a.Len(); i++ {
			if !vfShallowSame(a.Index(i), b.Index(i)) {
				return false
			}
		}
		return true
	}
	return vfDeepEq(a, b, map[[2]uintptr]bool{})
}

func vfUnchanged(label string, snap int) {
	ok := true
	for _, c := range vfState.snaps[snap] {
		if c.m.IsValid() && c.n >= 0 {
			if c.m.Len() != c.n {
				ok = false
			}
			continue
		}
		if c.m.IsValid() { // map entry: cell holds the key
			cur := c.m.MapIndex(c.cell)
			if !cur.IsValid() || !vfShallowSame(c.old, cur) {
				ok = false
			}
			continue
		}
		cur := c.cell
		if !cur.CanInterface() {
			cur = vfUnsafeCopy(cur)
		}
		if !vfShallowSame(c.old, cur) {
			ok = false
		}
	}
	vfAssert(label, ok)
}

func vfStoragePtr(v reflect.Value) uintptr {
	if !v.IsValid() {
		return 0
	}
	switch v.Kind() {
	case reflect.Interface:
		if v.IsNil() {
			return 0
		}
		return vfStoragePtr(v.Elem())
	case reflect.Slice:
		if v.IsNil() || v.Cap() == 0 {
			return 0
		}
		// identify the backing array by the address one past its end (independent of offset)
		full := v.Slice3(0, v.Cap(), v.Cap())
		return full.Index(0).Addr().Pointer() + uintptr(full.Len())*full.Type().Elem().Size()
	case reflect.Map:
		if v.IsNil() {
			return 0
		}
		return v.Pointer()
	case reflect.Ptr:
		if v.IsNil() {
			return 0
		}
		switch v.Elem().Kind() {
		case reflect.Slice, reflect.Map:
			return vfStoragePtr(v.Elem())
		case reflect.Struct:
			if v.Elem().NumField() == 1 {
				return vfStoragePtr(v.Elem().Field(0))
			}
		}
		return v.Pointer()
	case reflect.Struct:
		if v.NumField() == 1 {
			return vfStoragePtr(v.Field(0))
		}
	}
	return 0
}

func vfSameStorage(a, b interface{}) bool {
	pa, pb := vfStoragePtr(reflect.ValueOf(a)), vfStoragePtr(reflect.ValueOf(b))
	return pa != 0 && pa == pb
}

// ---- concurrency: deterministic replay of the explored schedule ----
//
// The instrumented sources call vfPoint before every statement and vfSpawn/vfEnter/vfExit around go statements.
// While a schedule script is active exactly one goroutine (the token holder) runs between points; the script says at
// which point a goroutine is preempted, and which goroutine takes over when the holder blocks or exits. A holder that
// reaches no point within the grace period is taken to be blocked (as the symbolic run says it is).

type vfSchedEntry struct {
	Kind   string `json:"kind"`
	From   int    `json:"from"`
	Points int    `json:"points"`
	To     int    `json:"to"`
}

var vfCtl struct {
	mu       sync.Mutex
	cond     *sync.Cond
	active   bool
	script   []vfSchedEntry
	pos      int
	holder   int
	nextG    int
	gids     map[int]int
	points   map[int]int
	progress time.Time
	diverged string
	gen      int
}

var vfGrace = 40 * time.Millisecond // raised on later attempts: a loaded machine can make a running goroutine look blocked

func vfCtlStart(script []vfSchedEntry, baseG int) {
	c := &vfCtl
	c.mu.Lock()
	if c.cond == nil {
		c.cond = sync.NewCond(&c.mu)
	}
	c.active = len(script) > 0
	c.script = script
	c.pos = 0
	c.holder = 0
	c.nextG = baseG
	c.gids = map[int]int{vfGID(): 0}
	c.points = map[int]int{}
	c.progress = time.Now()
	c.diverged = ""
	c.gen++
	gen := c.gen
	c.mu.Unlock()
	if len(script) > 0 {
		go vfWatchdog(gen)
	}
}

func vfCtlStop() {
	c := &vfCtl
	c.mu.Lock()
	c.active = false
	if c.cond != nil {
		c.cond.Broadcast()
	}
	c.mu.Unlock()
}

var vfDebug = os.Getenv("VF_DEBUG") != ""

func vfDbg(format string, a ...interface{}) {
	if vfDebug {
		fmt.Fprintf(os.Stderr, "[vfctl %s] "+format+"\n", append([]interface{}{time.Now().Format("05.000")}, a...)...)
	}
}

func vfWatchdog(gen int) {
	c := &vfCtl
	for {
		time.Sleep(4 * time.Millisecond)
		c.mu.Lock()
		if !c.active || c.gen != gen {
			c.mu.Unlock()
			return
		}
		if time.Since(c.progress) > vfGrace {
			// the token holder is blocked (or asleep)
			switch {
			case c.pos >= len(c.script):
				c.active = false
			case c.script[c.pos].Kind == "block" && c.script[c.pos].From == c.holder:
				vfDbg("watchdog: g%d blocked at point %d (script says %d) -> g%d", c.holder, c.points[c.holder], c.script[c.pos].Points, c.script[c.pos].To)
				c.holder = c.script[c.pos].To
				c.pos++
				c.progress = time.Now()
			case c.script[c.pos].Kind == "exit" && c.script[c.pos].From == c.holder && time.Since(c.progress) < 50*vfGrace:
				// the holder's vfExit has not been seen yet (still unwinding, or asleep): give it more time
			default:
				c.diverged = fmt.Sprintf("holder g%d (at point %d) made no progress but the schedule expects %+v (entry %d)", c.holder, c.points[c.holder], c.script[c.pos], c.pos)
				vfDbg("%s", c.diverged)
				c.active = false
			}
			c.cond.Broadcast()
		}
		c.mu.Unlock()
	}
}

func vfMyG() (int, bool) {
	g, ok := vfCtl.gids[vfGID()]
	return g, ok
}

// vfAwaitToken parks the calling goroutine until it holds the token (or the controller is switched off).
// Caller holds c.mu.
func vfAwaitToken(g int, atPoint bool) {
	c := &vfCtl
	for c.active {
		if c.holder == g {
			c.progress = time.Now()
			if atPoint && c.pos < len(c.script) {
				e := c.script[c.pos]
				if e.Kind == "preempt" && e.From == g && e.Points == c.points[g] {
					vfDbg("preempt g%d at point %d -> g%d", g, c.points[g], e.To)
					c.pos++
					c.holder = e.To
					c.progress = time.Now()
					c.cond.Broadcast()
					continue
				}
			}
			if c.pos >= len(c.script) {
				// schedule consumed: everybody runs freely from here on
				c.active = false
				c.cond.Broadcast()
			}
			return
		}
		c.cond.Wait()
	}
}

func vfPoint(id int) {
	c := &vfCtl
	if !c.active {
		return
	}
	c.mu.Lock()
	g, ok := vfMyG()
	if !ok || !c.active {
		c.mu.Unlock()
		return
	}
	c.points[g]++
	vfAwaitToken(g, true)
	c.mu.Unlock()
}

func vfSpawn() int {
	c := &vfCtl
	if !c.active {
		return -1
	}
	c.mu.Lock()
	defer c.mu.Unlock()
	g := c.nextG
	c.nextG++
	return g
}

func vfEnter(g int) {
	c := &vfCtl
	if g < 0 || !c.active {
		return
	}
	c.mu.Lock()
	c.gids[vfGID()] = g
	vfAwaitToken(g, false)
	c.mu.Unlock()
}

func vfExit(g int) {
	c := &vfCtl
	if g < 0 || !c.active {
		return
	}
	c.mu.Lock()
	if c.active && c.holder == g && c.pos < len(c.script) {
		e := c.script[c.pos]
		if e.Kind == "exit" && e.From == g {
			vfDbg("exit g%d at point %d (script %d) -> g%d", g, c.points[g], e.Points, e.To)
			c.pos++
			c.holder = e.To
			c.progress = time.Now()
			c.cond.Broadcast()
		}
	}
	c.mu.Unlock()
}

// vfSleep: time.Sleep of instrumented code. The symbolic run switches to another goroutine whenever the sleeper
// blocks; the script then holds a "block" entry for it, which is honoured at once instead of waiting for the watchdog.
func vfSleep(d time.Duration) {
	c := &vfCtl
	if c.active && d > 0 {
		c.mu.Lock()
		if g, ok := vfMyG(); ok && c.active && c.holder == g && c.pos < len(c.script) {
			e := c.script[c.pos]
			if e.Kind == "block" && e.From == g {
				vfDbg("sleep: g%d blocked at point %d (script %d) -> g%d", g, c.points[g], e.Points, e.To)
				c.pos++
				c.holder = e.To
				c.progress = time.Now()
				c.cond.Broadcast()
			}
		}
		c.mu.Unlock()
	}
	time.Sleep(d)
}

func vfQuiesce() {
	// let every other goroutine run until it blocks: natively, wait until nothing has moved for a while. Under the replay
	// controller the wait hands the token over like any blocking call (the watchdog sees no progress); when the token
	// comes BACK while this goroutine is still waiting, it is not blocked - it says so until the wait is over.
	c := &vfCtl
	end := time.Now().Add(200 * time.Millisecond)
	gave := false
	for time.Now().Before(end) {
		time.Sleep(4 * time.Millisecond)
		c.mu.Lock()
		if c.active {
			if g, ok := vfMyG(); ok {
				if c.holder != g {
					gave = true
				} else if gave {
					c.progress = time.Now() // the token has come back: still waiting, not blocked
				}
			}
		}
		c.mu.Unlock()
	}
}
func vfGoroutineID() int {
	c := &vfCtl
	c.mu.Lock()
	defer c.mu.Unlock()
	if g, ok := c.gids[vfGID()]; ok {
		return g
	}
	return -vfGID()
}
func vfSetMapOrder(mode int)                                    {}
func vfSetPoolMode(mode int)                                    {}
func vfSetDelayBound(d int)                                     {}
func vfMemPoints(on bool)                                       {}
func vfNow() int64                                              { return time.Now().UnixNano() }
func vfLockHeld(lock interface{}) int                           { return 2 }
func vfMonitorWrites(lock interface{}, roots ...interface{})    {}
func vfMonitorResult() (badWrites, badReads, writes, reads int) { return 0, 0, 1, 1 }

func vfRunOnce(h func()) (crash string) {
	defer func() {
		if r := recover(); r != nil {
			if _, ok := r.(vfStop); ok {
				return
			}
			crash = fmt.Sprint(r)
		}
	}()
	h()
	return ""
}

// vfReplayMain replays every counterexample file named in VF_REPLAY (':'-separated) against the harness functions of
// the registry and prints one VF-RESULT line per file.
func vfReplayMain(vfRegistry map[string]func()) {
	// VF_REPLAY is a ':'-separated list of replay files; one VF-RESULT line is printed per file.
	// A runaway recursion should die of "stack overflow" within the test deadline, not crawl towards the 1 GB default.
	debug.SetMaxStack(64 << 20)
	attempts, _ := strconv.Atoi(os.Getenv("VF_ATTEMPTS"))
	if attempts <= 0 {
		attempts = 1
	}
	for ix, path := range strings.Split(os.Getenv("VF_REPLAY"), ":") {
		vfState.data = vfReplayData{}
		if err := vfLoad(path); err != nil {
			fmt.Printf("VF-RESULT %d error %v\n", ix, err)
			continue
		}
		h := vfRegistry[vfState.data.Harness]
		if h == nil {
			fmt.Printf("VF-RESULT %d error unknown harness %q\n", ix, vfState.data.Harness)
			continue
		}
		want := vfState.data.Label
		last := ""
		found := false
		n := 1
		if vfState.data.Retry {
			n = attempts
		} else if len(vfState.data.Sched) > 0 {
			n = 3 // schedule replays: retried with a longer grace period (40, 160, 640 ms) before giving up
		}
		fmt.Printf("VF-BEGIN %d\n", ix)
		began := time.Now()
		for i := 0; i < n && !found; i++ {
			if i > 0 && time.Since(began) > 12*time.Second {
				break // keep within the test deadline: report not-reproduced rather than die
			}
			vfResetRun()
			vfGrace = 40 * time.Millisecond
			if !vfState.data.Retry && i > 0 {
				vfGrace = 40 * time.Millisecond << (2 * uint(i))
			}
			vfCtlStart(vfState.data.Sched, vfState.data.BaseG)
			crash := vfRunOnce(h)
			vfCtlStop()
			if vfCtl.diverged != "" {
				vfState.diverged = vfCtl.diverged
			}
			if crash != "" && want == "crash" {
				fmt.Printf("VF-RESULT %d reproduced label=crash attempt=%d panic=%q\n", ix, i, crash)
				found = true
				break
			}
			for _, f := range vfState.failed {
				if f == want {
					fmt.Printf("VF-RESULT %d reproduced label=%s attempt=%d logs=%q\n", ix, f, i, vfState.logs)
					found = true
					break
				}
			}
			last = fmt.Sprintf("failed=%v crash=%q diverged=%q logs=%q", vfState.failed, crash, vfState.diverged, vfState.logs)
		}
		if !found {
			fmt.Printf("VF-RESULT %d not-reproduced attempts=%d last: %s\n", ix, n, last)
		}
	}
}
