package PKG

import (
	"context"
	"time"
)

// Engine-side declarations of the harness vocabulary. Bodies are never executed: gosym intercepts
// calls to these functions by name (see /verif/engine/gosym/vf.go).

func vfInt(name string) int         { panic("vf intrinsic") }
func vfInt8(name string) int8       { panic("vf intrinsic") }
func vfInt16(name string) int16     { panic("vf intrinsic") }
func vfInt32(name string) int32     { panic("vf intrinsic") }
func vfInt64(name string) int64     { panic("vf intrinsic") }
func vfUint(name string) uint       { panic("vf intrinsic") }
func vfUint8(name string) uint8     { panic("vf intrinsic") }
func vfUint16(name string) uint16   { panic("vf intrinsic") }
func vfUint32(name string) uint32   { panic("vf intrinsic") }
func vfUint64(name string) uint64   { panic("vf intrinsic") }
func vfUintptr(name string) uintptr { panic("vf intrinsic") }
func vfFloat32(name string) float32 { panic("vf intrinsic") }
func vfFloat64(name string) float64 { panic("vf intrinsic") }
func vfBool(name string) bool       { panic("vf intrinsic") }
func vfStr(name string) string      { panic("vf intrinsic") }
func vfNumStr(v int64) string       { panic("vf intrinsic") }

func vfAssume(c bool)               { panic("vf intrinsic") }
func vfAssert(label string, c bool) { panic("vf intrinsic") }
func vfReach(label string)          { panic("vf intrinsic") }

func vfChoose(name string, n int) int     { panic("vf intrinsic") }
func vfRange(name string, lo, hi int) int { panic("vf intrinsic") }

// vfProbe: a size in lo..hi, or just beyond an integer constant that the repository functions whose names contain one
// of the |-separated filters (and the repository functions they call) compare something with
func vfProbe(name string, funcs string, lo, hi int) int { panic("vf intrinsic") }

// vfProbeDuration: base, or 20% beyond a time.Duration constant (1 ms .. 10 s) mentioned by the named repository functions
func vfProbeDuration(name string, funcs string, base time.Duration) time.Duration {
	panic("vf intrinsic")
}
func vfConcrete(x int) int               { panic("vf intrinsic") }
func vfCtxDone(ctx context.Context) bool { panic("vf intrinsic") }
func vfTier() int                        { panic("vf intrinsic") }

func vfFn(name string, args ...int) int    { panic("vf intrinsic") }
func vfPred(name string, args ...int) bool { panic("vf intrinsic") }

func vfAnd(a, b bool) bool        { panic("vf intrinsic") }
func vfOr(a, b bool) bool         { panic("vf intrinsic") }
func vfImplies(a, b bool) bool    { panic("vf intrinsic") }
func vfIte(c bool, a, b int) int  { panic("vf intrinsic") }
func vfIteBool(c, a, b bool) bool { panic("vf intrinsic") }
func vfEq(a, b interface{}) bool  { panic("vf intrinsic") }

func vfSnapshot(roots ...interface{}) int   { panic("vf intrinsic") }
func vfUnchanged(label string, snap int)    { panic("vf intrinsic") }
func vfSameStorage(a, b interface{}) bool   { panic("vf intrinsic") }
func vfLog(msg string, args ...interface{}) { panic("vf intrinsic") }

func vfQuiesce()                                                { panic("vf intrinsic") }
func vfGoroutineID() int                                        { panic("vf intrinsic") }
func vfSetMapOrder(mode int)                                    { panic("vf intrinsic") }
func vfSetPoolMode(mode int)                                    { panic("vf intrinsic") }
func vfSetDelayBound(d int)                                     { panic("vf intrinsic") }
func vfMemPoints(on bool)                                       { panic("vf intrinsic") }
func vfNow() int64                                              { panic("vf intrinsic") }
func vfPoint(id int)                                            { panic("vf intrinsic") }
func vfLockHeld(lock interface{}) int                           { panic("vf intrinsic") }
func vfMonitorWrites(lock interface{}, roots ...interface{})    { panic("vf intrinsic") }
func vfMonitorResult() (badWrites, badReads, writes, reads int) { panic("vf intrinsic") }

// instrumentation hooks (inserted by the engine's source instrumenter, see engine/gosym/instr.go)
func vfSpawn() int            { panic("vf intrinsic") }
func vfEnter(g int)           { panic("vf intrinsic") }
func vfExit(g int)            { panic("vf intrinsic") }
func vfSleep(d time.Duration) { panic("vf intrinsic") }
