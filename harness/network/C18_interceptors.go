package network

import (
	"errors"
	"net/http"
	"strings"
)

// C18: for every request all currently registered interceptors run exactly once, in registration order, before the
// transport, and their header edits reach it; an interceptor error aborts; Add/Remove/Clear change exactly the named
// entries; SetHTTPClient may be called any number of times without the chain running twice or recursing.
// Bounds: histories of <= 4 operations (thorough 5) over 3 interceptor objects (duplicates allowed) and 3 kinds of
// client, every verb, a failing interceptor at any position.

var errC18 = errors.New("interceptor failed")

// c18Setup: three interceptor objects that log, edit a header and (one of them, possibly) fail.
// c18Vals: per interceptor an arbitrary (symbolic numeral) header value it writes; set afresh by every c18Setup.
var c18Vals [3]string

func c18Setup(log *[]string, failing int) []*Interceptor {
	ics := make([]*Interceptor, 3)
	for i := range ics {
		id := i
		c18Vals[i] = vfNumStr(vfInt64("header-value"))
		var f Interceptor = func(req *http.Request) error {
			*log = append(*log, []string{"I0", "I1", "I2"}[id])
			req.Header.Set("X-Trace", req.Header.Get("X-Trace")+[]string{"a", "b", "c"}[id])
			req.Header.Set([]string{"X-V0", "X-V1", "X-V2"}[id], c18Vals[id])
			if id == failing {
				return errC18
			}
			return nil
		}
		ics[i] = &f
	}
	return ics
}

// c18Request issues one request and checks the call log against the model (the registered interceptor ids in order).
func c18Request(s *SimpleHTTPDef, tr *vhTransport, log *[]string, model []int, failing int, verb int) bool {
	*log = nil
	tr.seen = nil
	var r *ResponseWithError
	if !vfNoPanic("nopanic-request", func() {
		switch verb {
		case 0:
			r = s.Get("http://h/x")
		case 1:
			r = s.Head("http://h/x")
		case 2:
			r = s.Options("http://h/x")
		case 3:
			r = s.Delete("http://h/x")
		case 4:
			r = s.Post("http://h/x", "text/plain", strings.NewReader("b"))
		case 5:
			r = s.Put("http://h/x", "text/plain", strings.NewReader("b"))
		default:
			r = s.Patch("http://h/x", "text/plain", strings.NewReader("b"))
		}
	}) {
		return false
	}
	// expected log: registered interceptors in order (up to and including the first failing one), then the transport
	var want []string
	wantTrace := ""
	failed := false
	for _, k := range model {
		want = append(want, []string{"I0", "I1", "I2"}[k])
		wantTrace += []string{"a", "b", "c"}[k]
		if k == failing {
			failed = true
			break
		}
	}
	if !failed {
		want = append(want, "T")
	}
	vfAssert("call-log", strings.Join(*log, ",") == strings.Join(want, ","))
	if failed {
		vfAssert("error-surfaces", r.Err != nil)
		vfAssert("transport-not-reached", len(tr.seen) == 0)
	} else {
		vfAssert("no-error", r.Err == nil)
		vfAssert("transport-reached-once", len(tr.seen) == 1)
		if len(tr.seen) == 1 {
			vfAssert("header-edits-reach-transport", tr.seen[0].trace == wantTrace)
			for _, k := range model {
				vfAssert("header-edits-reach-transport", tr.seen[0].header.Get([]string{"X-V0", "X-V1", "X-V2"}[k]) == c18Vals[k])
			}
			vfAssert("verb", tr.seen[0].method == []string{"GET", "HEAD", "OPTIONS", "DELETE", "POST", "PUT", "PATCH"}[verb])
			vfAssert("url", tr.seen[0].url == "http://h/x")
			if verb >= 4 {
				vfAssert("content-type", tr.seen[0].header.Get("Content-Type") == "text/plain")
			}
		}
	}
	return true
}

func vh_C18_History() {
	var log []string
	tr := &vhTransport{log: &log}
	failing := []int{-1, 1}[vfChoose("failing", 2)]
	ics := c18Setup(&log, failing)
	client := &http.Client{Transport: tr}
	var initial []*Interceptor
	var model []int
	if vfChoose("initial", 2) == 1 {
		initial = []*Interceptor{ics[0], ics[1]}
		model = []int{0, 1}
	}
	s := NewSimpleHTTPWithClientAndInterceptors(client, initial...)
	steps := 3 + vfTier()
	for step := 0; step < steps; step++ {
		op := vfChoose("op", 12)
		switch {
		case op < 3:
			s.AddInterceptor(ics[op])
			model = append(model, op)
		case op < 6:
			k := op - 3
			s.RemoveInterceptor(ics[k])
			var nm []int
			for _, x := range model {
				if x != k {
					nm = append(nm, x) // pinned: every registration of that interceptor goes
				}
			}
			model = nm
		case op == 6:
			s.ClearInterceptor()
			model = nil
		case op == 10:
			// one call naming two interceptors (in either order): both go, whatever is registered
			k1 := vfChoose("first-name", 3)
			k2 := (k1 + 1 + vfChoose("second-name", 2)) % 3
			s.RemoveInterceptor(ics[k1], ics[k2])
			var nm []int
			for _, x := range model {
				if x != k1 && x != k2 {
					nm = append(nm, x)
				}
			}
			model = nm
		case op == 7:
			s.SetHTTPClient(s.GetHTTPClient()) // the same client again
		case op == 8:
			s.SetHTTPClient(&http.Client{Transport: tr}) // a fresh client around the same transport
		case op == 9:
			s.SetHTTPClient(&http.Client{Transport: s}) // a client that already routes through this SimpleHTTP
		default:
			if !c18Request(s, tr, &log, model, failing, 0) {
				return
			}
		}
	}
	if !c18Request(s, tr, &log, model, failing, 0) {
		return
	}
	vfReach("end")
}

func vh_C18_Verbs() {
	var log []string
	tr := &vhTransport{log: &log}
	failing := vfRange("failing", -1, 2)
	ics := c18Setup(&log, failing)
	n := vfRange("interceptors", 0, 3)
	var model []int
	var regs []*Interceptor
	for i := 0; i < n; i++ {
		k := vfChoose("which", 3)
		model = append(model, k)
		regs = append(regs, ics[k])
	}
	s := NewSimpleHTTPWithClientAndInterceptors(&http.Client{Transport: tr}, regs...)
	if !c18Request(s, tr, &log, model, failing, vfChoose("verb", 7)) {
		return
	}
	vfReach("end")
}

// two instances from the DEFAULT constructors (NewSimpleHTTP / NewSimpleAPI, no client supplied) are independent: a
// request through one runs exactly its own interceptors, once, in order, then the (process-wide default) transport.
// The stub is installed as http.DefaultTransport for the duration of the run and everything global is restored.
func vh_C18_DefaultConstructors() {
	var log []string
	tr := &vhTransport{log: &log}
	oldT, oldCT := http.DefaultTransport, http.DefaultClient.Transport
	defer func() { http.DefaultTransport, http.DefaultClient.Transport = oldT, oldCT }()
	http.DefaultTransport = tr
	ics := c18Setup(&log, -1)
	var s1, s2 *SimpleHTTPDef
	if vfChoose("via-api", 2) == 1 {
		s1, s2 = NewSimpleAPI("http://h").GetSimpleHTTP(), NewSimpleAPI("http://h").GetSimpleHTTP()
	} else {
		s1, s2 = NewSimpleHTTP(), NewSimpleHTTP()
	}
	s1.AddInterceptor(ics[0])
	s2.AddInterceptor(ics[1], ics[2])
	if vfChoose("first", 2) == 0 {
		if !c18Request(s1, tr, &log, []int{0}, -1, 0) || !c18Request(s2, tr, &log, []int{1, 2}, -1, 0) {
			return
		}
	} else {
		if !c18Request(s2, tr, &log, []int{1, 2}, -1, 0) || !c18Request(s1, tr, &log, []int{0}, -1, 0) {
			return
		}
	}
	vfReach("end")
}

// two instances constructed from ONE caller-owned interceptor slice that has spare capacity (the variadic constructor
// adopts the slice it is given): AddInterceptor / RemoveInterceptor on one instance affect exactly that instance - the
// other one, and a later request through it, still run exactly their own registrations
func vh_C18_SharedInitialList() {
	var log []string
	tr := &vhTransport{log: &log}
	ics := c18Setup(&log, -1)
	initial := vfRange("initial", 0, 2)
	base := make([]*Interceptor, 0, initial+vfRange("spare", 0, 2))
	var m1, m2 []int
	for i := 0; i < initial; i++ {
		base = append(base, ics[i])
		m1, m2 = append(m1, i), append(m2, i)
	}
	s1 := NewSimpleHTTPWithClientAndInterceptors(&http.Client{Transport: tr}, base...)
	s2 := NewSimpleHTTPWithClientAndInterceptors(&http.Client{Transport: tr}, base...)
	k1, k2 := vfChoose("first-adds", 3), vfChoose("second-adds", 3)
	s1.AddInterceptor(ics[k1])
	m1 = append(append([]int{}, m1...), k1)
	switch vfChoose("second-does", 3) {
	case 0:
		s2.AddInterceptor(ics[k2])
		m2 = append(append([]int{}, m2...), k2)
	case 1:
		s2.AddInterceptor(ics[k2], ics[(k2+1)%3])
		m2 = append(append([]int{}, m2...), k2, (k2+1)%3)
	default:
		if initial > 0 {
			s2.RemoveInterceptor(ics[0])
			m2 = append([]int{}, m2[1:]...)
		}
	}
	if !c18Request(s1, tr, &log, m1, -1, 0) || !c18Request(s2, tr, &log, m2, -1, 0) {
		return
	}
	vfReach("end")
}

// two instances sharing ONE http.Client (the second is given the client the first already adopted - through the
// constructor or through SetHTTPClient): a request through either instance still runs every interceptor registered on
// THAT instance exactly once, in order, before the transport, which is reached exactly once; header edits arrive
func vh_C18_SharedClient() {
	var log []string
	tr := &vhTransport{log: &log}
	ics := c18Setup(&log, -1)
	b := NewSimpleHTTPWithClientAndInterceptors(&http.Client{Transport: tr}, ics[2])
	var a *SimpleHTTPDef
	if vfChoose("adopted-via", 2) == 0 {
		a = NewSimpleHTTPWithClientAndInterceptors(b.GetHTTPClient(), ics[0], ics[1])
	} else {
		a = NewSimpleHTTPWithClientAndInterceptors(&http.Client{Transport: tr}, ics[0], ics[1])
		a.SetHTTPClient(b.GetHTTPClient())
	}
	own := func(s *SimpleHTTPDef, ids []string) {
		log = nil
		tr.seen = nil
		var r *ResponseWithError
		if !vfNoPanic("nopanic-request", func() { r = s.Get("http://h/x") }) {
			return
		}
		var mine []string
		for _, e := range log {
			for _, id := range ids {
				if e == id {
					mine = append(mine, e)
				}
			}
			if e == "T" {
				mine = append(mine, e)
			}
		}
		vfAssert("call-log", strings.Join(mine, ",") == strings.Join(append(append([]string{}, ids...), "T"), ","))
		vfAssert("no-error", r.Err == nil)
		vfAssert("transport-reached-once", len(tr.seen) == 1)
		if len(tr.seen) == 1 {
			for _, id := range ids {
				k := int(id[1] - '0')
				vfAssert("header-edits-reach-transport", tr.seen[0].header.Get([]string{"X-V0", "X-V1", "X-V2"}[k]) == c18Vals[k])
			}
		}
	}
	if vfChoose("first", 2) == 0 {
		own(a, []string{"I0", "I1"})
		own(b, []string{"I2"})
	} else {
		own(b, []string{"I2"})
		own(a, []string{"I0", "I1"})
	}
	vfReach("end")
}
