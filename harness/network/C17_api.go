package network

import (
	"errors"
	"io"
	"net/http"
	"net/url"
	"strings"
)

// C17: nothing is sent until the MonadIO is evaluated; each evaluation issues exactly one request with the constructor's
// verb, URL = BaseURL + "/" + template with every supplied {key} replaced, a COPY of DefaultHeader plus the declared
// Content-Type, and the serializer's output as body; the response body reaches the deserializer with the supplied target;
// serializer / transport / read / decoder failures come back as Err, never as a panic.
// Bounds: templates with 0..2 placeholders (thorough 3) over keys {id,name,x} incl. repeated keys, PathParam with
// missing / extra / several keys and every map iteration order, values from {"7","x-y",42}, 0..2 evaluations,
// one injected failure at a time. Outside: real sockets, the JSON/multipart codecs (serializers are parameters).

type c17Target struct{ V int }

var errC17Ser = errors.New("serializer failed")
var errC17Dec = errors.New("decoder failed")

// A JSON body is a struct with an arbitrary (symbolic) payload; the stub serializer returns a reader that carries the
// payload it was given next to the text "JSON:", so the transport stub can tell, for all payload values, whether the
// request body is the serializer's output for THAT body and is still unread.
type c17Payload struct{ V int }

type c17Reader struct {
	text    *strings.Reader
	payload int
}

func (r *c17Reader) Read(p []byte) (int, error) { return r.text.Read(p) }
func (r *c17Reader) Close() error               { return nil }

type c17Env struct {
	tr        *vhTransport
	api       *SimpleAPIDef
	decBody   []string
	decTarget []interface{}
	decFail   int // 0 ok, 1 returns (target, err), 2 returns (nil, err)
	serCalls  int
	serFail   bool
}

func c17New(withHeader bool) *c17Env {
	// the response body the stub server answers with: some text or nothing at all (it is the deserializer's business
	// what an empty body means - it must still be asked)
	e := &c17Env{tr: &vhTransport{respBody: "RESP"}}
	s := NewSimpleHTTPWithClientAndInterceptors(&http.Client{Transport: e.tr})
	e.api = NewSimpleAPIWithSimpleHTTP("http://h", s)
	if withHeader {
		// one single-valued field and one field holding two values
		e.api.DefaultHeader = http.Header{"X-Default": []string{"d1"}, "X-Multi": []string{"m1", "m2"}}
		if vfChoose("default-header-has-content-type", 2) == 1 {
			e.api.DefaultHeader.Set("Content-Type", "text/plain")
		}
	}
	e.api.ResponseDeserializer = func(body []byte, target interface{}) (interface{}, error) {
		e.decBody = append(e.decBody, string(body))
		e.decTarget = append(e.decTarget, target)
		switch e.decFail {
		case 1:
			return target, errC17Dec
		case 2:
			return nil, errC17Dec
		}
		return target, nil
	}
	e.api.RequestSerializerForJSON = func(body interface{}) (io.Reader, error) {
		e.serCalls++
		if e.serFail {
			return nil, errC17Ser
		}
		if pl, ok := body.(c17Payload); ok {
			return &c17Reader{text: strings.NewReader("JSON:"), payload: pl.V}, nil
		}
		return strings.NewReader("JSON:" + body.(string)), nil
	}
	e.api.RequestSerializerForMultipart = func(body *MultipartForm) (io.Reader, string, error) {
		e.serCalls++
		if e.serFail {
			return nil, "", errC17Ser
		}
		return strings.NewReader("MULTI:" + body.Value["k"][0]), "multipart/form-data; boundary=B", nil
	}
	return e
}

// c17Template draws a template and the parameters; returns the template, the PathParam and the expected relative URL.
func c17Template() (string, PathParam, string) {
	keys := []string{"id", "name", "x"}
	vals := []interface{}{"7", "x-y", 42}
	valStr := []string{"7", "x-y", "42"}
	m := vfRange("placeholders", 0, 2+vfTier())
	tmpl, want := "r", "r"
	supplied := [3]bool{}
	for k := range supplied {
		supplied[k] = vfChoose("supplied", 2) == 1
	}
	for i := 0; i < m; i++ {
		k := vfChoose("key", 3)
		tmpl += "/{" + keys[k] + "}"
		if supplied[k] {
			want += "/" + valStr[k]
		} else {
			want += "/{" + keys[k] + "}"
		}
		if i == 0 && vfChoose("literal", 2) == 1 {
			tmpl += "/s"
			want += "/s"
		}
	}
	var pp PathParam
	if vfChoose("nil-params", 2) == 0 {
		pp = PathParam{}
		for k := range supplied {
			if supplied[k] {
				pp[keys[k]] = vals[k]
			}
		}
	} else if supplied[0] || supplied[1] || supplied[2] {
		vfAssume(false)
	}
	return tmpl, pp, want
}

func c17CheckRequest(e *c17Env, ix int, method, wantRel, wantBody, wantCT string) {
	c17CheckRequestP(e, ix, method, wantRel, wantBody, wantCT, false, 0)
}

func c17CheckRequestP(e *c17Env, ix int, method, wantRel, wantBody, wantCT string, hasPayload bool, payload int) {
	if ix >= len(e.tr.seen) {
		return
	}
	seen := e.tr.seen[ix]
	vfAssert("method", seen.method == method)
	wu, _ := url.Parse("http://h/" + wantRel)
	vfAssert("url", seen.url == wu.String())
	if e.api.DefaultHeader != nil {
		vfAssert("default-header-content", seen.header.Get("X-Default") == "d1")
		mv := seen.header.Values("X-Multi")
		vfAssert("default-header-content", len(mv) == 2 && mv[0] == "m1" && mv[1] == "m2")
		vfAssert("default-header-is-a-copy", !vfSameStorage(seen.header, e.api.DefaultHeader))
		seen.header.Set("X-Default", "mutated")
		seen.header.Add("X-New", "n")
		vfAssert("request-header-mutation-does-not-reach-default", vfAnd(e.api.DefaultHeader.Get("X-Default") == "d1", e.api.DefaultHeader.Get("X-New") == ""))
	}
	cts := seen.header.Values("Content-Type")
	hasCT := wantCT == "" // nothing declared (bodiless request): whatever DefaultHeader says stands
	for _, ct := range cts {
		if ct == wantCT {
			hasCT = true
		}
	}
	vfAssert("content-type", hasCT) // "DefaultHeader plus the declared Content-Type": declared one among the values
	if e.api.DefaultHeader == nil || e.api.DefaultHeader.Get("Content-Type") == "" {
		vfAssert("content-type", seen.header.Get("Content-Type") == wantCT)
	} else {
		vfAssert("default-header-content", cts[0] == "text/plain") // DefaultHeader's own entry is carried too
	}
	got := ""
	if seen.body != nil {
		b, _ := io.ReadAll(seen.body)
		got = string(b)
	}
	vfAssert("body-is-serializer-output", got == wantBody)
	if hasPayload {
		rd, ok := seen.body.(*c17Reader)
		vfAssert("body-is-serializer-output", ok)
		if ok {
			vfAssert("body-carries-the-given-payload", rd.payload == payload)
		}
	}
}

func vh_C17_NoBody() {
	e := c17New(true)
	e.tr.respBody = []string{"RESP", ""}[vfChoose("response-body", 2)] // an empty body must still reach the deserializer
	tmpl, pp, wantRel := c17Template()
	method := "GET"
	var mk APINoBody[c17Target]
	switch vfChoose("ctor", 3) {
	case 0:
		mk = APIMakeGet[c17Target](e.api, tmpl)
	case 1:
		mk, method = APIMakeDelete[c17Target](e.api, tmpl), "DELETE"
	default:
		mk, method = APIMakeDoNewRequest[c17Target](e.api, "OPTIONS", tmpl), "OPTIONS"
	}
	var target c17Target
	mio := mk(pp, &target)
	vfAssert("lazy-nothing-sent-at-definition", len(e.tr.seen) == 0)
	evals := []int{0, 2}[vfChoose("evals", 2)]
	for k := 0; k < evals; k++ {
		var r *APIResponse[c17Target]
		if !vfNoPanic("nopanic-eval", func() { r = mio.Eval() }) {
			return
		}
		vfAssert("one-request-per-evaluation", len(e.tr.seen) == k+1)
		c17CheckRequest(e, k, method, wantRel, "", "")
		vfAssert("no-error", r.Err == nil)
		vfAssert("decoder-got-the-response-body", len(e.decBody) == k+1 && e.decBody[k] == e.tr.respBody)
		vfAssert("decoder-got-the-target", len(e.decTarget) == k+1 && e.decTarget[k] == interface{}(&target))
		vfAssert("target-object", r.TargetObject == &target)
	}
	vfAssert("nothing-else-sent", len(e.tr.seen) == evals)
	vfReach("end")
}

func vh_C17_Body() {
	e := c17New(vfChoose("header", 2) == 1)
	tmpl, pp, wantRel := c17Template()
	ctor := vfChoose("ctor", 7)
	method := []string{"POST", "PUT", "PATCH", "POST", "PUT", "PATCH", "REPORT"}[ctor]
	var target c17Target
	var mio interface {
		Eval() *APIResponse[c17Target]
	}
	wantBody, wantCT := "JSON:", "application/json"
	pl := c17Payload{V: vfInt("payload")}
	form := &MultipartForm{Value: map[string][]string{"k": {"v"}}}
	switch ctor {
	case 0:
		mio = APIMakePostJSONBody[c17Payload, c17Target](e.api, tmpl)(pp, pl, &target)
	case 1:
		mio = APIMakePutJSONBody[c17Payload, c17Target](e.api, tmpl)(pp, pl, &target)
	case 2:
		mio = APIMakePatchJSONBody[c17Payload, c17Target](e.api, tmpl)(pp, pl, &target)
	case 3:
		mio = APIMakePostMultipartBody[c17Target](e.api, tmpl)(pp, form, &target)
	case 4:
		mio = APIMakePutMultipartBody[c17Target](e.api, tmpl)(pp, form, &target)
	case 5:
		mio = APIMakePatchMultipartBody[c17Target](e.api, tmpl)(pp, form, &target)
	default:
		mio = APIMakeDoNewRequestWithBodySerializer[c17Payload, c17Target](e.api, "REPORT", tmpl, "text/x-report", e.api.RequestSerializerForJSON)(pp, pl, &target)
		wantCT = "text/x-report"
	}
	if ctor >= 3 && ctor <= 5 {
		wantBody, wantCT = "MULTI:v", "multipart/form-data; boundary=B"
	}
	// "nothing is sent": the property does not say when the serializer runs, so only the transport is looked at here
	vfAssert("lazy-nothing-sent-at-definition", len(e.tr.seen) == 0)
	evals := 1 + vfChoose("second-evaluation", 2)
	for k := 0; k < evals; k++ {
		var r *APIResponse[c17Target]
		if !vfNoPanic("nopanic-eval", func() { r = mio.Eval() }) {
			return
		}
		vfAssert("one-request-per-evaluation", len(e.tr.seen) == k+1)
		c17CheckRequestP(e, k, method, wantRel, wantBody, wantCT, ctor < 3 || ctor > 5, pl.V)
		vfAssert("no-error", r.Err == nil)
		vfAssert("target-object", r.TargetObject == &target)
		vfAssert("decoder-got-the-response-body", len(e.decBody) == k+1 && e.decBody[k] == e.tr.respBody)
	}
	vfReach("end")
}

func vh_C17_Failures() {
	e := c17New(false)
	e.tr.respBody = []string{"RESP", ""}[vfChoose("response-body", 2)] // an empty body must still reach the deserializer
	fault := vfChoose("fault", 5)                                      // serializer, transport, read, decoder(target,err), decoder(nil,err)
	switch fault {
	case 0:
		e.serFail = true
	case 1:
		e.tr.fail = true
	case 2:
		e.tr.badBody = true
	case 3:
		e.decFail = 1
	default:
		e.decFail = 2
	}
	var target c17Target
	var r *APIResponse[c17Target]
	withBody := vfChoose("with-body", 3)
	if fault == 0 && withBody == 0 {
		vfAssume(false)
	}
	if !vfNoPanic("nopanic-eval", func() {
		switch withBody {
		case 0:
			r = APIMakeGet[c17Target](e.api, "r/{id}")(PathParam{"id": 1}, &target).Eval()
		case 1:
			r = APIMakePostJSONBody[string, c17Target](e.api, "r")(nil, "payload", &target).Eval()
		default:
			r = APIMakePostMultipartBody[c17Target](e.api, "r")(nil, &MultipartForm{Value: map[string][]string{"k": {"v"}}}, &target).Eval()
		}
	}) {
		return
	}
	vfAssert("failure-comes-back-as-err", r != nil && r.Err != nil)
	if fault == 0 {
		vfAssert("serializer-failure-sends-nothing", len(e.tr.seen) == 0)
		vfAssert("lemma/serializer-error-is-the-serializers-own-value", r.Err == errC17Ser) // the property asks for "Err", not for this very value
	}
	if fault == 2 {
		vfAssert("lemma/read-error-is-the-readers-own-value", r.Err == errVhRead)
	}
	if fault >= 3 {
		vfAssert("lemma/decoder-error-is-the-decoders-own-value", r.Err == errC17Dec)
	}
	vfReach("end")
}

// a request that cannot even be built (a method name that is no HTTP token, through the generic constructors) comes
// back as Err: nothing is sent, nothing panics; and a positive TimeoutMillisecond leaves a good request untouched
func vh_C17_UnbuildableRequest() {
	e := c17New(true)
	if vfChoose("timeout-set", 2) == 1 {
		e.api.GetSimpleHTTP().TimeoutMillisecond = 5000
	}
	var target c17Target
	var r *APIResponse[c17Target]
	bad := vfChoose("bad-method", 2) == 1
	method := "REPORT"
	if bad {
		method = "BAD METHOD"
	}
	if !vfNoPanic("nopanic-eval", func() {
		if vfChoose("with-body", 2) == 0 {
			r = APIMakeDoNewRequest[c17Target](e.api, method, "r")(nil, &target).Eval()
		} else {
			r = APIMakeDoNewRequestWithBodySerializer[string, c17Target](e.api, method, "r", "text/x-report", e.api.RequestSerializerForJSON)(nil, "payload", &target).Eval()
		}
	}) {
		return
	}
	if bad {
		vfAssert("failure-comes-back-as-err", r != nil && r.Err != nil)
		vfAssert("nothing-else-sent", len(e.tr.seen) == 0)
	} else {
		vfAssert("no-error", r != nil && r.Err == nil)
		vfAssert("one-request-per-evaluation", len(e.tr.seen) == 1)
		if len(e.tr.seen) == 1 {
			vfAssert("method", e.tr.seen[0].method == "REPORT")
		}
	}
	vfReach("end")
}
