package network

import (
	"context"
	"errors"
	"io"
	"net/http"
	"strings"
)

// Recording stub transport shared by C17 and C18.

type vhSeen struct {
	method string
	url    string
	header http.Header
	body   io.Reader
	trace  string
}

type vhTransport struct {
	seen     []vhSeen
	log      *[]string
	fail     bool
	respBody string
	badBody  bool
}

var errVhTransport = errors.New("transport failed")
var errVhRead = errors.New("read failed")

type vhBadBody struct{}

func (vhBadBody) Read(p []byte) (int, error) { return 0, errVhRead }
func (vhBadBody) Close() error               { return nil }

var errVhCanceled = errors.New("context canceled")

type vhCtxBody struct {
	ctx context.Context
	r   io.Reader
}

func (b vhCtxBody) Read(p []byte) (int, error) {
	if vfCtxDone(b.ctx) {
		return 0, errVhCanceled
	}
	return b.r.Read(p)
}
func (b vhCtxBody) Close() error { return nil }

func (t *vhTransport) RoundTrip(req *http.Request) (*http.Response, error) {
	t.seen = append(t.seen, vhSeen{method: req.Method, url: req.URL.String(), header: req.Header, body: req.Body, trace: req.Header.Get("X-Trace")})
	if t.log != nil {
		*t.log = append(*t.log, "T")
	}
	if t.fail {
		return nil, errVhTransport
	}
	resp := &http.Response{StatusCode: 200, Request: req}
	// what a real transport reports: the exact body length when the server announced it, -1 when it did not (chunked
	// or close-delimited responses) - a symbolic value constrained to those two
	cl := vfInt64("response-content-length")
	vfAssume(vfOr(cl == -1, cl == int64(len(t.respBody))))
	resp.ContentLength = cl
	if t.badBody {
		resp.Body = vhBadBody{}
	} else {
		// like a real transport's, the body can be read only while the request's context is alive ("ctx controls the
		// entire lifetime of a request and its response: ... reading the response headers and body", net/http)
		resp.Body = vhCtxBody{ctx: req.Context(), r: strings.NewReader(t.respBody)}
	}
	return resp, nil
}
