package fpgo

import "sync"

// vf:instrument

// C12: functions posted to one Handler / messages sent to one Actor are processed exactly once, never two at a time,
// in per-sender order; an actor's effect receives the actor itself; Spawn registers parent/child unless the parent is
// closed; work submitted after Close returned is dropped. Bounds: 1..2 concurrent senders x <= 2 items
// (thorough: 3 senders), mailbox capacity 0..1, every schedule with <= 1 preemption (thorough 2) at statement granularity.

// sender and seq identify a message (concrete bookkeeping); payload is an arbitrary value determined by them
// (an uninterpreted function of sender and seq) that has to arrive unchanged
type c12Ev struct{ sender, seq, payload int }

func c12Msg(s, i int) c12Ev { return c12Ev{s, i, vfFn("payload", s, i)} }

func c12Senders() int { return 2 + vfTier() }

func c12CheckLog(log []c12Ev, senders, per int, overlap bool) {
	vfAssert("no-overlap", !overlap)
	vfAssert("each-exactly-once-count", len(log) == senders*per)
	intact := true
	for _, e := range log {
		intact = vfAnd(intact, e.payload == vfFn("payload", e.sender, e.seq))
	}
	vfAssert("payload-intact", intact)
	for s := 0; s < senders; s++ {
		next := 0
		ok := true
		for _, e := range log {
			if e.sender == s {
				if e.seq != next {
					ok = false
				}
				next++
			}
		}
		vfAssert("per-sender-order-and-once", ok && next == per)
	}
}

func vh_C12_Handler() {
	capacity := vfRange("cap", 0, 1)
	h := Handler.NewByCh(make(chan func(), capacity))
	senders := vfRange("senders", 1, c12Senders())
	per := vfRange("per", 1, 2)
	var log []c12Ev
	inside, overlap := false, false
	var wg sync.WaitGroup
	for s := 0; s < senders; s++ {
		wg.Add(1)
		s := s
		go func() {
			for i := 0; i < per; i++ {
				i := i
				h.Post(func() {
					if inside {
						overlap = true
					}
					inside = true
					log = append(log, c12Msg(s, i))
					inside = false
				})
			}
			wg.Done()
		}()
	}
	wg.Wait()
	vfQuiesce()
	c12CheckLog(log, senders, per, overlap)
	// after Close has returned, posted work is dropped without running (and without panicking)
	ran := false
	vfNoPanic("nopanic-close-post", func() {
		h.Close()
		h.Post(func() { ran = true })
	})
	vfQuiesce()
	vfAssert("post-after-close-dropped", !ran)
	vfReach("end")
}

func vh_C12_HandlerDefault() {
	h := Handler.New()
	n := 0
	h.Post(func() { n++ })
	h.Post(func() { n += 10 })
	vfQuiesce()
	vfAssert("both-ran-in-order", n == 11)
	vfAssert("lemma/default-handler-exists", Handler.GetDefault() != nil)
	vfReach("end")
}

// the process-wide default Handler (Handler.GetDefault(), the exported utility instance itself) is a Handler like any
// other: work posted before its Close runs, work posted after Close returned is dropped. (Closing it is the last thing
// this harness does; the Close is wrapped because a native replay process may already have closed it.)
func vh_C12_DefaultHandlerClose() {
	h := Handler.GetDefault()
	n := 0
	before := vfChoose("work-before-close", 2) == 1
	if before {
		h.Post(func() { n++ })
		vfQuiesce()
	}
	if before {
		vfAssert("lemma/default-handler-ran-work-posted-before-close", n == 1) // a lemma: a native replay process may have closed it earlier
	}
	vfPanics(func() { h.Close() })
	ran := false
	vfNoPanic("nopanic-close-post", func() { h.Post(func() { ran = true }) })
	vfQuiesce()
	vfAssert("post-after-close-dropped", !ran)
	vfReach("end")
}

func vh_C12_Actor() {
	capacity := vfRange("cap", 0, 1)
	senders := vfRange("senders", 1, c12Senders())
	per := vfRange("per", 1, 2)
	var log []c12Ev
	inside, overlap, selfOK := false, false, true
	var self *ActorDef[c12Ev]
	a := ActorNewByOptionsGenerics(func(ac *ActorDef[c12Ev], msg c12Ev) {
		if inside {
			overlap = true
		}
		inside = true
		if ac != self {
			selfOK = false
		}
		log = append(log, msg)
		inside = false
	}, make(chan c12Ev, capacity), map[string]interface{}{})
	self = a
	var wg sync.WaitGroup
	for s := 0; s < senders; s++ {
		wg.Add(1)
		s := s
		go func() {
			for i := 0; i < per; i++ {
				a.Send(c12Msg(s, i))
			}
			wg.Done()
		}()
	}
	wg.Wait()
	vfQuiesce()
	c12CheckLog(log, senders, per, overlap)
	vfAssert("effect-receives-its-own-actor", selfOK)
	before := len(log)
	vfNoPanic("nopanic-close-send", func() {
		a.Close()
		vfAssert("isclosed", a.IsClosed())
		a.Send(c12Msg(9, 9))
	})
	vfQuiesce()
	vfAssert("send-after-close-dropped", len(log) == before)
	vfReach("end")
}

func vh_C12_SpawnTree() {
	var gotParent, gotChild []int
	parent := ActorNewGenerics(func(ac *ActorDef[int], m int) { gotParent = append(gotParent, m) })
	var childSelf *ActorDef[int]
	childSelfOK := true
	child := parent.Spawn(func(ac *ActorDef[int], m int) {
		if ac != childSelf {
			childSelfOK = false
		}
		gotChild = append(gotChild, m)
	})
	childSelf = child
	vfAssert("child-parent", child.GetParent() == parent)
	vfAssert("parent-child", parent.GetChild(child.GetID()) == child)
	vfAssert("lemma/distinct-ids", child.GetID() != parent.GetID())
	grand := child.Spawn(func(ac *ActorDef[int], m int) {})
	vfAssert("grandchild-parent", grand.GetParent() == child)
	vfAssert("grandchild-not-under-root", parent.GetChild(grand.GetID()) == nil)
	x, y := vfInt("x"), vfInt("y")
	child.Send(x)
	parent.Send(y)
	vfQuiesce()
	vfAssert("child-mailbox-independent", vfAnd(len(gotChild) == 1, len(gotParent) == 1))
	if len(gotChild) == 1 && len(gotParent) == 1 {
		vfAssert("child-got-its-message", gotChild[0] == x)
		vfAssert("parent-got-its-message", gotParent[0] == y)
	}
	vfAssert("child-effect-receives-child", childSelfOK)
	// a closed parent does not adopt
	parent.Close()
	orphan := parent.Spawn(func(ac *ActorDef[int], m int) {})
	vfAssert("closed-parent-no-registration", vfAnd(orphan.GetParent() == nil, parent.GetChild(orphan.GetID()) == nil))
	// ... but an OPEN actor still adopts, whatever happened to its own parent (only "the parent" counts, not ancestors)
	late := child.Spawn(func(ac *ActorDef[int], m int) {})
	vfAssert("grandchild-parent", late.GetParent() == child)
	vfAssert("parent-child", child.GetChild(late.GetID()) == late)
	got := 0
	orphan2 := parent.Spawn(func(ac *ActorDef[int], m int) { got = m })
	orphan2.Send(5)
	vfQuiesce()
	vfAssert("lemma/orphan-still-works", got == 5)
	vfAssert("lemma/default-actor-closed", Actor.GetDefault().IsClosed())
	vfReach("end")
}

// deep variants: two senders with one item each on a FRESH mailbox, every schedule with <= 3 scheduling deviations (a first
// preemption may be needed to set two things up, a second one to make them overlap)
func vh_C12_HandlerDeep() {
	vfSetDelayBound(3)
	h := Handler.NewByCh(make(chan func(), vfRange("cap", 0, 1)))
	var log []c12Ev
	inside, overlap := false, false
	var wg sync.WaitGroup
	for s := 0; s < 2; s++ {
		wg.Add(1)
		s := s
		go func() {
			h.Post(func() {
				if inside {
					overlap = true
				}
				inside = true
				log = append(log, c12Msg(s, 0))
				inside = false
			})
			wg.Done()
		}()
	}
	wg.Wait()
	vfQuiesce()
	c12CheckLog(log, 2, 1, overlap)
	vfReach("end")
}

func vh_C12_ActorDeep() {
	vfSetDelayBound(3)
	var log []c12Ev
	inside, overlap := false, false
	a := ActorNewByOptionsGenerics(func(ac *ActorDef[c12Ev], msg c12Ev) {
		if inside {
			overlap = true
		}
		inside = true
		log = append(log, msg)
		inside = false
	}, make(chan c12Ev, vfRange("cap", 0, 1)), map[string]interface{}{})
	var wg sync.WaitGroup
	for s := 0; s < 2; s++ {
		wg.Add(1)
		s := s
		go func() {
			a.Send(c12Msg(s, 0))
			wg.Done()
		}()
	}
	wg.Wait()
	vfQuiesce()
	c12CheckLog(log, 2, 1, overlap)
	vfReach("end")
}

// the instance-method constructors Actor.New / Actor.NewByOptions (interface{} actors) give the same mailbox
func vh_C12_UtilInstance() {
	var log []int
	var self *ActorDef[interface{}]
	selfOK := true
	effect := func(ac *ActorDef[interface{}], m interface{}) {
		if ac != self {
			selfOK = false
		}
		log = append(log, m.(int))
	}
	var a *ActorDef[interface{}]
	if c := vfRange("mailbox-capacity", 0, 1); vfChoose("ctor", 2) == 0 {
		a = Actor.New(effect)
	} else {
		a = Actor.NewByOptions(effect, make(chan interface{}, c), map[string]interface{}{})
	}
	self = a
	x, y := vfInt("x"), vfInt("y")
	a.Send(x)
	a.Send(y)
	vfQuiesce()
	vfAssert("each-exactly-once-count", len(log) == 2)
	if len(log) == 2 {
		vfAssert("per-sender-order-and-once", vfAnd(log[0] == x, log[1] == y))
	}
	vfAssert("effect-receives-its-own-actor", selfOK)
	vfNoPanic("nopanic-close-send", func() { a.Close(); a.Send(x) })
	vfQuiesce()
	vfAssert("send-after-close-dropped", len(log) == 2)
	vfReach("end")
}

// work accepted BEFORE Close (its Send / Post has returned) but still queued in a buffered mailbox when Close is called
// is processed exactly once all the same; only work submitted after Close returned is dropped
func vh_C12_CloseWithBacklog() {
	capacity := vfRange("cap", 1, 2)
	gate := make(chan struct{})
	var log []int
	actorSide := vfChoose("actor", 2) == 1
	var post func(i int)
	var closeIt func()
	if actorSide {
		a := ActorNewByOptionsGenerics(func(ac *ActorDef[int], m int) {
			if m == 0 {
				<-gate // busy with the first message while the others queue up
			}
			log = append(log, m)
		}, make(chan int, capacity), map[string]interface{}{})
		post, closeIt = func(i int) { a.Send(i) }, a.Close
	} else {
		h := Handler.NewByCh(make(chan func(), capacity))
		post, closeIt = func(i int) {
			h.Post(func() {
				if i == 0 {
					<-gate
				}
				log = append(log, i)
			})
		}, h.Close
	}
	post(0)
	vfQuiesce() // the mailbox goroutine has taken message 0 and waits at the gate
	for i := 1; i <= capacity; i++ {
		post(i) // fits the buffer: returns at once
	}
	vfNoPanic("nopanic-close-send", func() {
		closeIt()
		post(99) // after Close returned: dropped
	})
	close(gate)
	vfQuiesce()
	vfAssert("each-exactly-once-count", len(log) == capacity+1)
	ok := len(log) == capacity+1
	for i := 0; ok && i <= capacity; i++ {
		ok = log[i] == i
	}
	vfAssert("per-sender-order-and-once", ok)
	vfReach("end")
}
