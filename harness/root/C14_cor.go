package fpgo

import "time"

// vf:instrument

// C14: the k-th request taken by the target returns its x to the target's YieldRef and the yielded value y_k to exactly
// the caller that made it. Bounds: 1..2 callers x <= 2 requests (one caller: <= 3; thorough: 6 > channel buffer 5),
// generator shapes fixed-sequence / echo / accumulate built from uninterpreted functions, every schedule with
// <= 1 preemption (thorough 2) at statement granularity. The target always has as many YieldRefs as there are requests.

func c14Y(shape int, k int, lastX int, acc int) int {
	switch shape {
	case 0: // fixed sequence
		return vfFn("Y", k)
	case 1: // echo of the previous request
		return vfFn("echo", lastX)
	default: // accumulate
		return vfFn("acc", acc)
	}
}

func vh_C14_OneCaller() {
	n := vfRange("n", 1, 3+3*vfTier())
	shape := vfChoose("shape", 3)
	xs := make([]int, n)
	for i := range xs {
		xs[i] = vfInt("x")
	}
	var target, caller *CorDef[int]
	var seen, yielded, got []int
	target = CorNewGenerics[int](func() {
		lastX, acc := 0, 0
		for k := 0; k < n; k++ {
			y := c14Y(shape, k, lastX, acc)
			yielded = append(yielded, y)
			x := target.YieldRef(y)
			seen = append(seen, x)
			lastX = x
			acc = vfFn("plus", acc, x)
		}
	})
	caller = CorNewGenerics[int](func() {
		for k := 0; k < n; k++ {
			got = append(got, caller.YieldFrom(target, xs[k]))
		}
	})
	vfAssert("not-started", vfAnd(!target.IsStarted(), !target.IsDone()))
	if !vfNoPanic("nopanic", func() {
		target.Start()
		vfAssert("started", target.IsStarted())
		caller.Start()
		vfQuiesce()
	}) {
		return
	}
	vfAssert("target-saw-every-request", vfSliceEq(seen, xs))
	vfAssert("caller-got-every-answer-in-order", vfSliceEq(got, yielded))
	vfAssert("all-yields-made", len(yielded) == n)
	vfAssert("done-when-effect-returned", vfAnd(target.IsDone(), caller.IsDone()))
	vfReach("end")
}

func vh_C14_TwoCallers() {
	per := vfRange("per", 1, 2)
	var target *CorDef[int]
	callers := make([]*CorDef[int], 2)
	var seen []int
	got := make([][]int, 2)
	total := 2 * per
	target = CorNewGenerics[int](func() {
		for k := 0; k < total; k++ {
			seen = append(seen, target.YieldRef(100+k))
		}
	})
	for c := 0; c < 2; c++ {
		c := c
		callers[c] = CorNewGenerics[int](func() {
			for i := 0; i < per; i++ {
				got[c] = append(got[c], callers[c].YieldFrom(target, c*10+i))
			}
		})
	}
	if !vfNoPanic("nopanic", func() {
		target.Start()
		callers[0].Start()
		callers[1].Start()
		vfQuiesce()
	}) {
		return
	}
	vfAssert("every-request-taken-once", len(seen) == total)
	for c := 0; c < 2; c++ {
		vfAssert("caller-got-all-its-answers", len(got[c]) == per)
		for i := 0; i < per && i < len(got[c]); i++ {
			// the answer to request (c,i) is the value yielded at the position where the target took it
			pos := -1
			for k, x := range seen {
				if x == c*10+i {
					if pos >= 0 {
						vfAssert("request-not-duplicated", false)
					}
					pos = k
				}
			}
			vfAssert("request-not-lost", pos >= 0)
			vfAssert("own-answer-routed-to-its-caller", got[c][i] == 100+pos)
		}
		// per-caller order: the target took this caller's requests in the order they were made
		last := -1
		inOrder := true
		for _, x := range seen {
			if x/10 == c {
				if x%10 < last {
					inOrder = false
				}
				last = x % 10
			}
		}
		vfAssert("per-caller-order", inOrder)
	}
	vfReach("end")
}

func vh_C14_StartWithValDoNotationIO() {
	v := vfInt("v")
	var target *CorDef[int]
	first := -1
	finished := false
	target = CorNewGenerics[int](func() {
		first = target.YieldRef(vfFn("ignored", 0))
		finished = true
	})
	if !vfNoPanic("nopanic-startwithval", func() {
		target.StartWithVal(v)
		vfQuiesce()
	}) {
		return
	}
	vfAssert("startwithval-feeds-first-yieldref", vfAnd(finished, first == v))
	vfAssert("done", target.IsDone())
	// starting again is a no-op
	vfNoPanic("nopanic-restart", func() { target.Start(); target.StartWithVal(v) })
	var r int
	if vfNoPanic("nopanic-donotation", func() {
		r = target.DoNotation(func(c *CorDef[int]) int {
			io := c.YieldFromIO(MonadIONewGenerics(func() int { return vfFn("IO", v) }))
			return vfFn("D", io)
		})
	}) {
		vfAssert("donotation-returns-effect-result", r == vfFn("D", vfFn("IO", v)))
	}
	vfReach("end")
}

// more requests outstanding at once than the operation channel buffers (5): six to eight callers queue before the
// target starts (5 buffered, one blocked in the send, the others queued behind it)
func vh_C14_ManyCallers() {
	callers := vfRange("callers", 6, 8)
	var target *CorDef[int]
	cs := make([]*CorDef[int], callers)
	// request payloads and yielded values are symbolic (payloads pairwise distinct so that requests can be attributed)
	xs, ys := make([]int, callers), make([]int, callers)
	for c := range xs {
		xs[c], ys[c] = vfInt("x"), vfInt("y")
		for d := 0; d < c; d++ {
			vfAssume(xs[c] != xs[d])
		}
	}
	var seen []int
	got := make([]int, callers)
	answered := make([]bool, callers)
	target = CorNewGenerics[int](func() {
		for k := 0; k < callers; k++ {
			seen = append(seen, target.YieldRef(ys[k]))
		}
	})
	for c := 0; c < callers; c++ {
		c := c
		cs[c] = CorNewGenerics[int](func() {
			got[c] = cs[c].YieldFrom(target, xs[c])
			answered[c] = true
		})
	}
	if !vfNoPanic("nopanic", func() {
		for c := 0; c < callers; c++ {
			cs[c].Start()
		}
		vfQuiesce() // five requests are buffered, the sixth caller waits for room
		target.Start()
		vfQuiesce()
	}) {
		return
	}
	vfAssert("every-request-taken-once", len(seen) == callers)
	for c := 0; c < callers; c++ {
		vfAssert("caller-answered", answered[c])
		taken, routed := false, false
		for k, x := range seen {
			taken = vfOr(taken, x == xs[c])
			routed = vfOr(routed, vfAnd(x == xs[c], got[c] == ys[k]))
		}
		vfAssert("request-not-lost", taken)
		if answered[c] {
			vfAssert("own-answer-routed-to-its-caller", routed)
		}
	}
	vfReach("end")
}

// callers whose requests are ALREADY waiting when the target is started with StartWithVal (0..6 of them - more than the
// request buffer holds): StartWithVal returns, its value reaches the FIRST YieldRef, and every waiting request is then
// taken once and answered to its own caller with the value of the YieldRef that took it
func vh_C14_StartWithValAfterQueued() {
	vfSetDelayBound(1) // up to 8 goroutines: one scheduling deviation anywhere, in both tiers
	callers := vfRange("callers", 0, 6)
	v := vfInt("start-value")
	var target *CorDef[int]
	cs := make([]*CorDef[int], callers)
	xs, ys := make([]int, callers), make([]int, callers+1)
	for c := range xs {
		xs[c] = vfInt("x")
		vfAssume(xs[c] != v)
		for d := 0; d < c; d++ {
			vfAssume(xs[c] != xs[d])
		}
	}
	for k := range ys {
		ys[k] = vfInt("y")
	}
	var seen []int
	got := make([]int, callers)
	answered := make([]bool, callers)
	target = CorNewGenerics[int](func() {
		for k := 0; k < callers+1; k++ {
			seen = append(seen, target.YieldRef(ys[k]))
		}
	})
	for c := 0; c < callers; c++ {
		c := c
		cs[c] = CorNewGenerics[int](func() {
			got[c] = cs[c].YieldFrom(target, xs[c])
			answered[c] = true
		})
	}
	returned := false
	if !vfNoPanic("nopanic", func() {
		for c := 0; c < callers; c++ {
			cs[c].Start()
		}
		vfQuiesce() // the requests wait on the unstarted target
		go func() { target.StartWithVal(v); returned = true }()
		vfQuiesce()
	}) {
		return
	}
	vfAssert("startwithval-returns", returned)
	vfAssert("started", target.IsStarted())
	vfAssert("every-request-taken-once", len(seen) == callers+1)
	if len(seen) > 0 {
		vfAssert("startwithval-feeds-first-yieldref", seen[0] == v)
	}
	for c := 0; c < callers; c++ {
		vfAssert("caller-answered", answered[c])
		taken, routed := false, false
		for k, x := range seen {
			taken = vfOr(taken, x == xs[c])
			routed = vfOr(routed, vfAnd(x == xs[c], got[c] == ys[k]))
		}
		vfAssert("request-not-lost", taken)
		if answered[c] {
			vfAssert("own-answer-routed-to-its-caller", routed)
		}
	}
	vfReach("end")
}

// the instance-method constructors Cor.New (interface{} coroutine) and NewAndStart pair requests the same way
func vh_C14_UtilInstance() {
	var target *CorDef[interface{}]
	var caller *CorDef[interface{}]
	x1, x2, y1, y2 := vfInt("x1"), vfInt("x2"), vfInt("y1"), vfInt("y2")
	var seen, got []interface{}
	started := false
	ready := make(chan struct{}) // NewAndStart runs the effect before the caller has the coroutine in hand
	body := func() {
		started = true
		<-ready
		seen = append(seen, target.YieldRef(y1))
		seen = append(seen, target.YieldRef(y2))
	}
	if !vfNoPanic("nopanic", func() {
		if vfChoose("ctor", 2) == 0 {
			target = Cor.New(body)
			vfAssert("not-started", !target.IsStarted())
			target.Start()
		} else {
			target = Cor.NewAndStart(body)
		}
		close(ready)
		caller = Cor.New(func() {
			got = append(got, caller.YieldFrom(target, x1))
			got = append(got, caller.YieldFrom(target, x2))
		})
		caller.Start()
		vfQuiesce()
	}) {
		return
	}
	vfAssert("started", started && target.IsStarted())
	vfAssert("target-saw-every-request", len(seen) == 2 && seen[0] == interface{}(x1) && seen[1] == interface{}(x2))
	vfAssert("caller-got-every-answer-in-order", len(got) == 2 && got[0] == interface{}(y1) && got[1] == interface{}(y2))
	vfReach("end")
}

// StartWithVal (or Start) on a coroutine that is already running does nothing: no phantom request is queued, so the
// pairing of later requests is not shifted
func vh_C14_RestartWhileRunning() {
	var target, caller *CorDef[int]
	v0, v1, x1, x2, y0, y1, y2 := vfInt("v0"), vfInt("v1"), vfInt("x1"), vfInt("x2"), vfInt("y0"), vfInt("y1"), vfInt("y2")
	var seen, got []int
	target = CorNewGenerics[int](func() {
		seen = append(seen, target.YieldRef(y0))
		seen = append(seen, target.YieldRef(y1))
		seen = append(seen, target.YieldRef(y2))
	})
	caller = CorNewGenerics[int](func() {
		got = append(got, caller.YieldFrom(target, x1))
		got = append(got, caller.YieldFrom(target, x2))
	})
	if !vfNoPanic("nopanic", func() {
		target.StartWithVal(v0)
		vfQuiesce()
		switch vfChoose("again", 3) {
		case 0:
			target.StartWithVal(v1)
		case 1:
			target.Start()
		default:
			target.Start()
			target.StartWithVal(v1)
		}
		caller.Start()
		vfQuiesce()
	}) {
		return
	}
	vfAssert("startwithval-feeds-first-yieldref", len(seen) >= 1 && seen[0] == v0)
	vfAssert("target-saw-every-request", len(seen) == 3 && seen[1] == x1 && seen[2] == x2)
	vfAssert("caller-got-every-answer-in-order", len(got) == 2 && got[0] == y1 && got[1] == y2)
	vfReach("end")
}

// YieldFromIO returns the IO's value whatever handlers the IO carries - none, ObserveOn only, SubscribeOn only, two
// different ones, or the SAME handler for both (where a naive hand-over from the handler to itself would never finish)
func vh_C14_YieldFromIOHandlers() {
	h1, h2 := Handler.New(), Handler.New()
	x := vfInt("x")
	io := MonadIONewGenerics(func() int { return vfFn("IO", x) })
	switch vfChoose("io-handlers", 7) {
	case 5: // an IO composed with FlatMap whose bound function returns an IO observed on a handler
		io = MonadIOJustGenerics(x).FlatMap(func(v int) *MonadIODef[int] {
			return MonadIONewGenerics(func() int { time.Sleep(20 * time.Millisecond); return vfFn("IO", v) }).ObserveOn(h1)
		})
	case 6: // ... or subscribed on one
		io = MonadIOJustGenerics(x).FlatMap(func(v int) *MonadIODef[int] {
			return MonadIONewGenerics(func() int { time.Sleep(20 * time.Millisecond); return vfFn("IO", v) }).SubscribeOn(h2)
		})
	case 1:
		io = io.ObserveOn(h1)
	case 2:
		io = io.SubscribeOn(h2)
	case 3:
		io = io.ObserveOn(h1).SubscribeOn(h2)
	case 4:
		io = io.ObserveOn(h1).SubscribeOn(h1)
	}
	var got int
	finished := false
	var c *CorDef[int]
	c = CorNewGenerics[int](func() {
		got = c.YieldFromIO(io)
		finished = true
	})
	if !vfNoPanic("nopanic", func() { c.Start(); vfQuiesce() }) {
		return
	}
	vfAssert("yieldfromio-returns", finished)
	if finished {
		vfAssert("yieldfromio-returns-the-io-value", got == vfFn("IO", x))
	}
	vfReach("end")
}

// StartWithVal with values that a careless "is there a start value" test could mistake for none: nil (interface{}
// coroutine), a nil pointer (pointer coroutine), the zero value 0 - the first YieldRef receives exactly that value
// (and takes no request), and the requests that follow pair with the later YieldRefs as usual
func vh_C14_StartWithValZeroLike() {
	x, y1 := vfInt("x"), vfInt("y1")
	switch vfChoose("element-type", 3) {
	case 0: // interface{} coroutine started with nil
		var target, caller *CorDef[interface{}]
		var seen []interface{}
		var got interface{}
		target = Cor.New(func() {
			seen = append(seen, target.YieldRef(-1))
			seen = append(seen, target.YieldRef(y1))
		})
		caller = Cor.New(func() { got = caller.YieldFrom(target, x) })
		if !vfNoPanic("nopanic", func() { target.StartWithVal(nil); vfQuiesce(); caller.Start(); vfQuiesce() }) {
			return
		}
		vfAssert("startwithval-feeds-first-yieldref", len(seen) >= 1 && seen[0] == nil)
		vfAssert("target-saw-every-request", len(seen) == 2 && seen[1] == interface{}(x))
		vfAssert("caller-got-every-answer-in-order", got == interface{}(y1))
		vfAssert("done", target.IsDone())
	case 1: // pointer coroutine started with a nil pointer
		var target, caller *CorDef[*int]
		var seen []*int
		var got *int
		px, py := &x, &y1
		target = CorNewGenerics[*int](func() {
			seen = append(seen, target.YieldRef(nil))
			seen = append(seen, target.YieldRef(py))
		})
		caller = CorNewGenerics[*int](func() { got = caller.YieldFrom(target, px) })
		if !vfNoPanic("nopanic", func() { target.StartWithVal(nil); vfQuiesce(); caller.Start(); vfQuiesce() }) {
			return
		}
		vfAssert("startwithval-feeds-first-yieldref", len(seen) >= 1 && seen[0] == nil)
		vfAssert("target-saw-every-request", len(seen) == 2 && seen[1] == px)
		vfAssert("caller-got-every-answer-in-order", got == py)
		vfAssert("done", target.IsDone())
	default: // int coroutine started with 0
		var target, caller *CorDef[int]
		var seen []int
		got := -1
		target = CorNewGenerics[int](func() {
			seen = append(seen, target.YieldRef(-1))
			seen = append(seen, target.YieldRef(y1))
		})
		caller = CorNewGenerics[int](func() { got = caller.YieldFrom(target, x) })
		if !vfNoPanic("nopanic", func() { target.StartWithVal(0); vfQuiesce(); caller.Start(); vfQuiesce() }) {
			return
		}
		vfAssert("startwithval-feeds-first-yieldref", len(seen) >= 1 && seen[0] == 0)
		vfAssert("target-saw-every-request", vfAnd(len(seen) == 2, len(seen) < 2 || seen[1] == x))
		vfAssert("caller-got-every-answer-in-order", got == y1)
		vfAssert("done", target.IsDone())
	}
	vfReach("end")
}
