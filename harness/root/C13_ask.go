package fpgo

import (
	"sync"
	"time"
)

// vf:instrument

// C13: every asker gets the reply produced for its own request; AskOnceWithTimeout returns (reply, nil) in time and
// (zero, ErrActorAskTimeout) otherwise; a reply produced after the timeout is discarded without panicking or
// blocking the actor, which keeps serving. Bounds: <= 2 concurrent askers (thorough 3), reply latency before /
// after / never relative to the timeout (virtual time), every schedule with <= 1 preemption (thorough 2).

func c13Actor(latency time.Duration, never bool, served *int) *ActorDef[interface{}] {
	return ActorNewGenerics(func(self *ActorDef[interface{}], m interface{}) {
		ask, ok := m.(*AskDef[int, int])
		if !ok {
			return
		}
		if never && ask.Message < 0 {
			return
		}
		if latency > 0 && ask.Message < 0 {
			time.Sleep(latency)
		}
		*served++
		ask.Reply(vfFn("R", ask.Message))
	})
}

func vh_C13_Concurrent() {
	served := 0
	actor := c13Actor(0, false, &served)
	n := vfRange("askers", 1, 2+vfTier())
	got := make([]int, n)
	msgs := make([]int, n)
	var wg sync.WaitGroup
	for i := 0; i < n; i++ {
		i := i
		msgs[i] = vfInt("msg")
		vfAssume(msgs[i] >= 0)
		wg.Add(1)
		go func() {
			switch vfChoose("how", 3) {
			case 0:
				got[i] = AskNewGenerics[int, int](msgs[i]).AskOnce(actor)
			case 1:
				got[i], _ = AskNewGenerics[int, int](msgs[i]).AskOnceWithTimeout(actor, time.Hour)
			default:
				got[i] = <-AskNewGenerics[int, int](msgs[i]).AskChannel(actor)
			}
			wg.Done()
		}()
	}
	wg.Wait()
	for i := 0; i < n; i++ {
		vfAssert("own-reply", got[i] == vfFn("R", msgs[i]))
	}
	vfAssert("each-request-served-once", served == n)
	vfReach("end")
}

func vh_C13_Timeout() {
	served := 0
	mode := vfChoose("latency", 3) // 0: reply well before the timeout, 1: after it, 2: never
	latency := 20 * time.Millisecond
	timeout := 120 * time.Millisecond
	if mode == 1 {
		latency, timeout = 200*time.Millisecond, 60*time.Millisecond
	}
	if mode != 0 {
		// a timeout that has already expired when the call is made (zero, or negative as time.Until(deadline) gives
		// after the deadline) is still a timeout
		timeout = []time.Duration{timeout, 0, -time.Second}[vfChoose("timeout-shape", 3)]
	}
	actor := c13Actor(latency, mode == 2, &served)
	slow := vfInt("slow")
	vfAssume(slow < 0) // negative messages are the slow / unanswered ones
	var r int
	var err error
	var ask *AskDef[int, int]
	switch vfChoose("ask-constructor", 3) {
	case 0:
		ask = AskNewGenerics[int, int](slow)
	case 1:
		ask = AskNewByOptionsGenerics[int, int](slow, make(chan int)) // the caller's own, unbuffered reply channel
	default:
		ask = AskNewByOptionsGenerics[int, int](slow, make(chan int, 1))
	}
	if !vfNoPanic("nopanic-ask", func() { r, err = ask.AskOnceWithTimeout(actor, timeout) }) {
		return
	}
	if mode == 0 {
		vfAssert("in-time-no-error", err == nil)
		vfAssert("in-time-reply", r == vfFn("R", slow))
	} else {
		vfAssert("late-timeout-error", err == ErrActorAskTimeout)
		vfAssert("late-zero-value", r == 0)
	}
	// the late reply (if any) is produced now; it must disturb nobody
	time.Sleep(400 * time.Millisecond)
	vfQuiesce()
	// the actor keeps serving
	fresh := vfInt("fresh")
	vfAssume(fresh >= 0)
	var r2 int
	var err2 error
	vfNoPanic("nopanic-second-ask", func() { r2, err2 = AskNewGenerics[int, int](fresh).AskOnceWithTimeout(actor, time.Second) })
	vfAssert("actor-still-serves", vfAnd(err2 == nil, r2 == vfFn("R", fresh)))
	vfReach("end")
}

// a timeout asker whose request waits behind another asker's slow request (the actor's mailbox is unbuffered, so
// the second Send itself blocks while the actor is busy): whatever the asker is told, the actor must go on serving
func vh_C13_BusyActor() {
	served := 0
	actor := c13Actor(200*time.Millisecond, false, &served)
	slowA, msgB, fresh := vfInt("slowA"), vfInt("msgB"), vfInt("fresh")
	vfAssume(slowA < 0)
	vfAssume(fresh >= 0)
	bSlow := vfChoose("b-slow", 2) == 1
	if bSlow {
		vfAssume(msgB < 0)
	} else {
		vfAssume(msgB >= 0)
	}
	var rA int
	doneA := make(chan struct{})
	go func() {
		rA = AskNewGenerics[int, int](slowA).AskOnce(actor)
		close(doneA)
	}()
	time.Sleep(50 * time.Millisecond) // the actor is now busy with A until t = 200 ms
	var rB int
	var errB error
	if !vfNoPanic("nopanic-ask", func() {
		rB, errB = AskNewGenerics[int, int](msgB).AskOnceWithTimeout(actor, 60*time.Millisecond)
	}) {
		return
	}
	vfAssert("reply-or-clean-timeout", vfOr(vfAnd(errB == nil, rB == vfFn("R", msgB)), vfAnd(errB == ErrActorAskTimeout, rB == 0)))
	if bSlow {
		// accepted at 200 ms at the earliest, answered 200 ms later: never within 60 ms of anything
		vfAssert("late-timeout-error", errB == ErrActorAskTimeout)
	}
	<-doneA
	vfAssert("first-asker-own-reply", rA == vfFn("R", slowA))
	time.Sleep(900 * time.Millisecond) // any late reply to B is produced (and must be discarded) by now
	vfQuiesce()
	var r2 int
	var err2 error
	vfNoPanic("nopanic-later-ask", func() { r2, err2 = AskNewGenerics[int, int](fresh).AskOnceWithTimeout(actor, time.Second) })
	vfAssert("actor-still-serves", vfAnd(err2 == nil, r2 == vfFn("R", fresh)))
	vfReach("end")
}

// AskChannel hands out the reply channel: the asker may read it whenever it likes - here long after the actor called
// Reply - and still receives exactly the value replied for its request; the actor then goes on serving
func vh_C13_LateReader() {
	served := 0
	actor := c13Actor(0, false, &served)
	msg, fresh := vfInt("msg"), vfInt("fresh")
	vfAssume(msg >= 0)
	vfAssume(fresh >= 0)
	ch := AskNewGenerics[int, int](msg).AskChannel(actor)
	time.Sleep(time.Duration(vfRange("delay-100ms", 0, 6)) * 100 * time.Millisecond)
	got, ok := 0, false
	select {
	case got, ok = <-ch:
	case <-time.After(3 * time.Second):
	}
	vfAssert("late-reader-still-gets-its-reply", ok)
	vfAssert("own-reply", vfImplies(ok, got == vfFn("R", msg)))
	var r2 int
	var err2 error
	vfNoPanic("nopanic-later-ask", func() { r2, err2 = AskNewGenerics[int, int](fresh).AskOnceWithTimeout(actor, time.Second) })
	vfAssert("actor-still-serves", vfAnd(err2 == nil, r2 == vfFn("R", fresh)))
	vfReach("end")
}

// the instance-method constructors Ask.New / Ask.NewByOptions (also with a caller-made buffered reply channel)
func vh_C13_UtilInstance() {
	actor := ActorNewGenerics(func(self *ActorDef[interface{}], m interface{}) {
		if ask, ok := m.(*AskDef[interface{}, interface{}]); ok {
			ask.Reply(vfFn("R", ask.Message.(int)))
		}
	})
	x := vfInt("x")
	var ask *AskDef[interface{}, interface{}]
	switch vfChoose("ctor", 3) {
	case 0:
		ask = Ask.New(x)
	case 1:
		ask = Ask.NewByOptions(x, make(chan interface{}))
	default:
		ask = Ask.NewByOptions(x, make(chan interface{}, 1))
	}
	var got interface{}
	var err error
	vfNoPanic("nopanic-ask", func() {
		if vfChoose("how", 2) == 0 {
			got = ask.AskOnce(actor)
		} else {
			got, err = ask.AskOnceWithTimeout(actor, time.Second)
		}
	})
	vfAssert("in-time-no-error", err == nil)
	vfAssert("own-reply", got == interface{}(vfFn("R", x)))
	vfReach("end")
}

// the entry points WITHOUT a timeout (AskOnce, AskChannel) wait for the reply however long the actor takes: the reply
// latency is 300 ms or taken from the code (vfProbeDuration: 20% beyond every time.Duration constant the ask / reply
// functions mention - a hidden wait limit, a retry interval in the CURRENT source); the asker still gets exactly the
// value replied for its request, and the actor serves the next request afterwards
func vh_C13_SlowReplies() {
	latency := vfProbeDuration("latency", "Ask|Reply|ActorDef", 300*time.Millisecond)
	served := 0
	actor := c13Actor(latency, false, &served)
	msg := vfInt("msg")
	vfAssume(msg < 0) // negative messages are the slow ones (c13Actor)
	var got int
	if vfChoose("how", 2) == 0 {
		got = AskNewGenerics[int, int](msg).AskOnce(actor)
	} else {
		got = <-AskNewGenerics[int, int](msg).AskChannel(actor)
	}
	vfAssert("own-reply", got == vfFn("R", msg))
	vfQuiesce()
	next := AskNewGenerics[int, int](1).AskOnce(actor)
	vfAssert("actor-still-serves", next == vfFn("R", 1))
	vfAssert("each-request-served-once", served == 2)
	vfReach("end")
}

// an ask object prepared AHEAD of time (constructed, then used after a pause longer than its timeout): the timeout runs
// from the call, so an actor that answers at once is answered in time - for the first use and for a later one
func vh_C13_PreparedAsk() {
	served := 0
	actor := c13Actor(0, false, &served)
	timeout := 300 * time.Millisecond
	var ask *AskDef[int, int]
	msg := vfInt("msg")
	vfAssume(msg >= 0)
	switch vfChoose("ask-constructor", 3) {
	case 0:
		ask = AskNewGenerics[int, int](msg)
	case 1:
		ask = AskNewByOptionsGenerics[int, int](msg, make(chan int))
	default:
		ask = AskNewByOptionsGenerics[int, int](msg, make(chan int, 1))
	}
	time.Sleep(time.Duration(vfRange("pause-in-timeouts", 0, 3)) * timeout)
	got, err := ask.AskOnceWithTimeout(actor, timeout)
	vfAssert("in-time-no-error", err == nil)
	vfAssert("own-reply", got == vfFn("R", msg))
	vfAssert("each-request-served-once", served == 1)
	vfReach("end")
}
