package fpgo

// vf:instrument

// White-box part of C08 (reads the wrappers' unexported lock field). Everything here is a LEMMA: its labels start
// with "lemma/", a failure prints LEMMA-FAILED and never VIOLATION. If this file stops compiling against a changed
// tree (internal names changed), the check skips it with a NOTE and decides the property with the black-box harnesses.

// lock-discipline lemma (any number of goroutines, any schedule): every write to the wrapped structure's cells
// happens while the wrapper's lock is held exclusively, every read while it is held at least shared.
func vh_C08_LockDiscipline() {
	base := NewLinkedListQueue[c08Item]()
	for i := vfRange("prefill", 0, 2); i > 0; i-- {
		base.Offer(c08Item{Tag: i, Payload: vfInt("payload")})
	}
	q := NewConcurrentQueue[c08Item](base)
	st := NewConcurrentStack[c08Item](base)
	op := vfChoose("op", 6)
	lock := &q.lock
	if op >= 4 {
		lock = &st.lock
	}
	vfMonitorWrites(lock, base)
	switch op {
	case 0:
		q.Offer(c08Item{Tag: 3})
	case 1:
		q.Put(c08Item{Tag: 3})
	case 2:
		q.Poll()
	case 3:
		q.Take()
	case 4:
		st.Push(c08Item{Tag: 3})
	default:
		st.Pop()
	}
	badW, badR, w, r := vfMonitorResult()
	name := []string{"Offer", "Put", "Poll", "Take", "Push", "Pop"}[op]
	vfAssert("lemma/"+name+"/touches-the-structure", w+r > 0)
	vfAssert("lemma/"+name+"/writes-under-exclusive-lock", badW == 0)
	vfAssert("lemma/"+name+"/reads-under-lock", badR == 0)
	vfReach("end")
}
