package fpgo

// C05: set-algebra laws (non-empty operands) and agreement of every generic function/method with its
// interface{} twin on the same data (all operands, incl. empty and nil).
// Bounds: operand length 0..3 (non-empty: 1..3), StreamSets <= 2 keys x <= 2 elements; map iteration order:
// insertion order or its reverse, chosen once per path (results are compared as sets / by key, so order cannot matter to the oracle).

func c05Len() int { return 3 + vfTier() }

func c05NonEmpty(name string) []int {
	l := vfIntList(name, c05Len(), 0)
	if len(l) == 0 {
		vfAssume(false)
	}
	return l
}

// ---------- laws on plain slices ----------

func vh_C05_law_Union() {
	vfSetMapOrder(3)
	a, b := c05NonEmpty("a"), c05NonEmpty("b")
	x := vfInt("x")
	var u []int
	if !vfNoPanic("nopanic", func() { u = Union(a, b) }) {
		return
	}
	vfAssert("member", vfMember(u, x) == vfOr(vfMember(a, x), vfMember(b, x)))
	vfAssert("nodup", vfNoDup(u))
	vfReach("end")
}

func vh_C05_law_Union3() {
	vfSetMapOrder(2)
	a, b, c := vfIntList("a", 2, 0), vfIntList("b", 2, 0), vfIntList("c", 2, 0)
	x := vfInt("x")
	var u []int
	if !vfNoPanic("nopanic", func() { u = Union(a, b, c) }) {
		return
	}
	vfAssert("member", vfMember(u, x) == vfOr(vfMember(a, x), vfOr(vfMember(b, x), vfMember(c, x))))
	vfAssert("nodup", vfNoDup(u))
	vfReach("end")
}

func vh_C05_law_Intersection() {
	a, b := c05NonEmpty("a"), c05NonEmpty("b")
	x := vfInt("x")
	var r []int
	if !vfNoPanic("nopanic", func() { r = Intersection(a, b) }) {
		return
	}
	vfAssert("member", vfMember(r, x) == vfAnd(vfMember(a, x), vfMember(b, x)))
	vfAssert("nodup", vfNoDup(r))
	vfAssert("order-of-first", vfSliceEq(r, ref05InterOrdered(a, b)))
	vfReach("end")
}

func vh_C05_law_Intersection3() {
	a, b, c := c05NonEmpty("a"), vfIntList("b", 2, 0), vfIntList("c", 2, 0)
	if len(b) == 0 || len(c) == 0 {
		vfAssume(false)
	}
	x := vfInt("x")
	var r []int
	if !vfNoPanic("nopanic", func() { r = Intersection(a, b, c) }) {
		return
	}
	vfAssert("member", vfMember(r, x) == vfAnd(vfMember(a, x), vfAnd(vfMember(b, x), vfMember(c, x))))
	vfAssert("nodup", vfNoDup(r))
	vfReach("end")
}

func vh_C05_law_MinusDifference() {
	vfSetMapOrder(2)
	a, b := c05NonEmpty("a"), c05NonEmpty("b")
	x := vfInt("x")
	var mi, di []int
	if !vfNoPanic("nopanic", func() { mi = Minus(a, b); di = Difference(a, b) }) {
		return
	}
	in := vfAnd(vfMember(a, x), !vfMember(b, x))
	vfAssert("minus-member", vfMember(mi, x) == in)
	vfAssert("difference-member", vfMember(di, x) == in)
	vfAssert("difference-nodup", vfNoDup(di))
	// order follows the first operand
	vfAssert("minus-order", vfSliceEq(mi, ref03Filter(func(v, i int) bool { return !vfMember(b, v) }, a)))
	vfAssert("difference-order", vfSliceEq(di, ref03Distinct(ref03Filter(func(v, i int) bool { return !vfMember(b, v) }, a))))
	// A = (A \ B) U (A n B) as sets
	var it []int
	vfNoPanic("nopanic-inter", func() { it = Intersection(a, b) })
	vfAssert("partition-law", vfMember(a, x) == vfOr(vfMember(mi, x), vfMember(it, x)))
	vfReach("end")
}

// Difference with three operands: in the result iff in the first operand and in NEITHER of the others
func vh_C05_law_Difference3() {
	vfSetMapOrder(2)
	a, b, c := c05NonEmpty("a"), vfIntList("b", 2, 0), vfIntList("c", 2, 0)
	if len(b) == 0 || len(c) == 0 {
		vfAssume(false)
	}
	x := vfInt("x")
	var r []int
	if !vfNoPanic("nopanic", func() { r = Difference(a, b, c) }) {
		return
	}
	vfAssert("difference-member", vfMember(r, x) == vfAnd(vfMember(a, x), vfAnd(!vfMember(b, x), !vfMember(c, x))))
	vfAssert("difference-nodup", vfNoDup(r))
	vfAssert("difference-order", vfSliceEq(r, ref03Distinct(ref03Filter(func(v, i int) bool { return vfAnd(!vfMember(b, v), !vfMember(c, v)) }, a))))
	vfReach("end")
}

func vh_C05_law_Subset() {
	a, b := c05NonEmpty("a"), c05NonEmpty("b")
	var sub, sup bool
	if !vfNoPanic("nopanic", func() { sub = IsSubset(a, b); sup = IsSuperset(b, a) }) {
		return
	}
	all := true
	for _, v := range a {
		all = vfAnd(all, vfMember(b, v))
	}
	vfAssert("subset", sub == all)
	vfAssert("superset-is-converse", sup == all)
	vfSetMapOrder(2)
	var mi []int
	vfNoPanic("nopanic-minus", func() { mi = Minus(a, b) })
	vfAssert("subset-iff-minus-empty", sub == (len(mi) == 0))
	vfReach("end")
}

// ---------- twins on plain slices (all operands) ----------

func c05SameList(label string, g []int, t []interface{}) {
	u, ok := c05Unbox(t)
	vfAssert(label+"-types", ok)
	if ok {
		vfAssert(label, vfSliceEq(g, u))
	}
}

func vh_C05_twin_SliceFuncs() {
	vfSetMapOrder(2)
	a, b := vfIntList("a", c05Len(), 0), vfIntList("b", c05Len(), 0)
	x := vfInt("x")
	ba, bb := c05Box(a), c05Box(b)
	ok := vfNoPanic("nopanic", func() {
		c05SameList("distinct", Distinct(a...), DistinctForInterface(ba...))
		c05SameList("intersection", Intersection(a, b), IntersectionForInterface(ba, bb))
		c05SameList("intersection1", Intersection(a), IntersectionForInterface(ba))
		c05SameList("minus", Minus(a, b), MinusForInterface(ba, bb))
		vfAssert("issubset", IsSubset(a, b) == IsSubsetForInterface(ba, bb))
		vfAssert("issuperset", IsSuperset(a, b) == IsSupersetForInterface(ba, bb))
		vfAssert("exists", Exists(x, a...) == ExistsForInterface(x, ba...))
	})
	if ok {
		vfReach("end")
	}
}

// ---------- twins on maps by key ----------

func c05BoxMap(m map[int]int) map[interface{}]int {
	if m == nil {
		return nil
	}
	r := make(map[interface{}]int, len(m))
	for k, v := range m {
		r[k] = v
	}
	return r
}

// c05SameMap: generic map and interface{}-keyed map hold the same entries.
func c05SameMap(label string, g map[int]int, t map[interface{}]int) {
	vfAssert(label+"-size", len(g) == len(t))
	ok := true
	for k, v := range g {
		tv, has := t[k]
		ok = vfAnd(ok, vfAnd(has, tv == v))
	}
	vfAssert(label, ok)
}

func vh_C05_twin_MapFuncs() {
	vfSetMapOrder(2)
	a, b := vfIntMap("a", 2), vfIntMap("b", 2)
	ba, bb := c05BoxMap(a), c05BoxMap(b)
	ok := vfNoPanic("nopanic", func() {
		c05SameMap("intersection", IntersectionMapByKey(a, b), IntersectionMapByKeyForInterface(ba, bb))
		c05SameMap("intersection1", IntersectionMapByKey(a), IntersectionMapByKeyForInterface(ba))
		c05SameMap("merge", Merge(a, b), MergeForInterface(ba, bb))
		c05SameMap("duplicate", DuplicateMap(a), DuplicateMapForInterface(ba))
		vfAssert("issubset", IsSubsetMapByKey(a, b) == IsSubsetMapByKeyForInterface(ba, bb))
		vfAssert("issuperset", IsSupersetMapByKey(a, b) == IsSupersetMapByKeyForInterface(ba, bb))
		ks, ok1 := c05Unbox(KeysForInterface(ba))
		vfAssert("keys-types", ok1)
		vfAssert("keys", vfSameMultiset(Keys(a), ks))
		vfAssert("values", vfSameMultiset(Values(a), ValuesForInterface(ba)))
		x := vfInt("x")
		la := Keys(a)
		c05SameMap("slicetomap", SliceToMap(x, la...), SliceToMapForInterface(x, c05Box(la)...))
	})
	if ok {
		vfReach("end")
	}
}

func vh_C05_law_MapByKey() {
	vfSetMapOrder(3)
	a, b := vfIntMap("a", 2), vfIntMap("b", 2)
	if len(a) == 0 || len(b) == 0 {
		vfAssume(false)
	}
	x := vfInt("x")
	_, ina := a[x]
	_, inb := b[x]
	ok := vfNoPanic("nopanic", func() {
		_, ini := IntersectionMapByKey(a, b)[x]
		_, inm := MinusMapByKey(a, b)[x]
		_, inu := Merge(a, b)[x]
		vfAssert("intersection", ini == vfAnd(ina, inb))
		vfAssert("minus", inm == vfAnd(ina, !inb))
		vfAssert("union", inu == vfOr(ina, inb))
		all := true
		for k := range a {
			_, h := b[k]
			all = vfAnd(all, h)
		}
		vfAssert("subset", IsSubsetMapByKey(a, b) == all)
		vfAssert("superset", IsSupersetMapByKey(b, a) == all)
	})
	if ok {
		vfReach("end")
	}
}

// ---------- Stream twins and laws ----------

func c05SameStream(label string, g *StreamDef[int], t *StreamForInterfaceDef) {
	if g == nil || t == nil {
		vfAssert(label+"-nil", (g == nil) == (t == nil))
		return
	}
	c05SameList(label, []int(*g), []interface{}(*t))
}

func vh_C05_twin_Stream() {
	vfSetMapOrder(2)
	a, b := vfIntList("a", c05Len(), 0), vfIntList("b", c05Len(), 0)
	x := vfInt("x")
	ga, gb := StreamFromArray(a), StreamFromArray(b)
	ta, tb := StreamForInterface.FromArray(c05Box(a)), StreamForInterface.FromArray(c05Box(b))
	ok := vfNoPanic("nopanic", func() {
		c05SameStream("intersection", ga.Intersection(gb), ta.Intersection(tb))
		c05SameStream("minus", ga.Minus(gb), ta.Minus(tb))
		c05SameStream("distinct", ga.Distinct(), ta.Distinct())
		c05SameStream("removeitem", ga.RemoveItem(b...), ta.RemoveItem(c05Box(b)...))
		vfAssert("issubset", ga.IsSubset(gb) == ta.IsSubset(tb))
		vfAssert("issuperset", ga.IsSuperset(gb) == ta.IsSuperset(tb))
		vfAssert("contains", ga.Contains(x) == ta.Contains(x))
		// nil argument streams
		c05SameStream("intersection-nil", ga.Intersection(nil), ta.Intersection(nil))
		c05SameStream("minus-nil", ga.Minus(nil), ta.Minus(nil))
		vfAssert("issubset-nil", ga.IsSubset(nil) == ta.IsSubset(nil))
		vfAssert("issuperset-nil", ga.IsSuperset(nil) == ta.IsSuperset(nil))
	})
	if ok {
		vfReach("end")
	}
}

func vh_C05_law_Stream() {
	vfSetMapOrder(2)
	a, b := c05NonEmpty("a"), c05NonEmpty("b")
	x := vfInt("x")
	ga, gb := StreamFromArray(a), StreamFromArray(b)
	ok := vfNoPanic("nopanic", func() {
		it := ga.Intersection(gb).ToArray()
		mi := ga.Minus(gb).ToArray()
		vfAssert("intersection", vfMember(it, x) == vfAnd(vfMember(a, x), vfMember(b, x)))
		vfAssert("intersection-nodup", vfNoDup(it))
		vfAssert("minus", vfMember(mi, x) == vfAnd(vfMember(a, x), !vfMember(b, x)))
		all := true
		for _, v := range a {
			all = vfAnd(all, vfMember(b, v))
		}
		vfAssert("subset", ga.IsSubset(gb) == all)
		vfAssert("superset", gb.IsSuperset(ga) == all)
		vfAssert("contains", ga.Contains(x) == vfMember(a, x))
	})
	if ok {
		vfReach("end")
	}
}

// ---------- MapSet / SetForInterface twins and laws (by key) ----------

func c05SameKeys(label string, g SetDef[int, int], t *SetForInterfaceDef) {
	if g == nil || t == nil {
		vfAssert(label+"-nil", (g == nil) == (t == nil))
		return
	}
	ks, ok := c05Unbox(t.Keys())
	vfAssert(label+"-types", ok)
	if ok {
		vfAssert(label, vfSameMultiset(g.Keys(), ks))
	}
}

func vh_C05_twin_Set() {
	vfSetMapOrder(2)
	a, b := vfIntList("a", c05Len(), 0), vfIntList("b", 2, 0)
	x := vfInt("x")
	ga, gb := SetFromArray[int, int](a), SetFromArray[int, int](b)
	ta, tb := SetForInterfaceFromArray(c05Box(a)), SetForInterfaceFromArray(c05Box(b))
	ok := vfNoPanic("nopanic", func() {
		c05SameKeys("from", ga, ta)
		c05SameKeys("union", ga.Union(gb), ta.Union(tb))
		c05SameKeys("intersection", ga.Intersection(gb), ta.Intersection(tb))
		c05SameKeys("minus", ga.Minus(gb), ta.Minus(tb))
		c05SameKeys("add", ga.Add(b...), ta.Add(c05Box(b)...))
		c05SameKeys("removekeys", ga.RemoveKeys(b...), ta.RemoveKeys(c05Box(b)...))
		vfAssert("issubset", ga.IsSubsetByKey(gb) == ta.IsSubsetByKey(tb))
		vfAssert("issuperset", ga.IsSupersetByKey(gb) == ta.IsSupersetByKey(tb))
		vfAssert("containskey", ga.ContainsKey(x) == ta.ContainsKey(x))
		vfAssert("size", ga.Size() == ta.Size())
	})
	if ok {
		vfReach("end")
	}
}

// the twins built FROM A MAP agree on the same data: keys, values (Get / ContainsValue / Values) and what value-based
// removal leaves
func vh_C05_twin_SetFromMap() {
	vfSetMapOrder(2)
	k1, k2, v1, v2, x := vfInt("k1"), vfInt("k2"), vfInt("v1"), vfInt("v2"), vfInt("x")
	vfAssume(k1 != k2)
	g := SetFromMap(map[int]int{k1: v1, k2: v2})
	t := SetForInterfaceFromMap(map[interface{}]interface{}{k1: v1, k2: v2})
	ok := vfNoPanic("nopanic", func() {
		vfAssert("frommap-size", g.Size() == t.Size())
		vfAssert("frommap-containskey", g.ContainsKey(x) == t.ContainsKey(x))
		vfAssert("frommap-get", vfAnd(t.Get(k1) == interface{}(g.Get(k1)), t.Get(k2) == interface{}(g.Get(k2))))
		vfAssert("frommap-containsvalue", g.ContainsValue(x) == t.ContainsValue(x))
		gr, tr := g.RemoveValues(v1), t.RemoveValues(v1)
		vfAssert("frommap-removevalues", vfAnd(gr.ContainsKey(k1) == tr.ContainsKey(k1), gr.ContainsKey(k2) == tr.ContainsKey(k2)))
	})
	if ok {
		vfReach("end")
	}
}

// the variadic set functions called with NO operand at all: the twins agree, nothing panics
func vh_C05_twin_NoOperands() {
	ok := vfNoPanic("nopanic", func() {
		vfAssert("intersection", len(Intersection[int]()) == len(IntersectionForInterface()))
		vfAssert("intersection-key", len(IntersectionMapByKey[int, int]()) == len(IntersectionMapByKeyForInterface[int]()))
		vfAssert("difference-member", len(Difference[int]()) == 0)
		vfAssert("union", len(Union[int]()) == 0)
	})
	if ok {
		vfReach("end")
	}
}

func vh_C05_law_Set() {
	vfSetMapOrder(3)
	a, b := c05NonEmpty("a"), c05NonEmpty("b")
	x := vfInt("x")
	ga, gb := SetFromArray[int, int](a), SetFromArray[int, int](b)
	ok := vfNoPanic("nopanic", func() {
		vfAssert("union", ga.Union(gb).ContainsKey(x) == vfOr(vfMember(a, x), vfMember(b, x)))
		vfAssert("intersection", ga.Intersection(gb).ContainsKey(x) == vfAnd(vfMember(a, x), vfMember(b, x)))
		vfAssert("minus", ga.Minus(gb).ContainsKey(x) == vfAnd(vfMember(a, x), !vfMember(b, x)))
		all := true
		for _, v := range a {
			all = vfAnd(all, vfMember(b, v))
		}
		vfAssert("subset", ga.IsSubsetByKey(gb) == all)
		vfAssert("superset", gb.IsSupersetByKey(ga) == all)
		vfAssert("keys-nodup", vfNoDup(ga.Union(gb).Keys()))
	})
	if ok {
		vfReach("end")
	}
}

// ---------- StreamSet / StreamSetForInterface twins (by key, then per-key stream) ----------

func c05SameStreamSet(label string, g *StreamSetDef[int, int], t *StreamSetForInterfaceDef, probes []int) {
	if g == nil || t == nil {
		vfAssert(label+"-nil", (g == nil) == (t == nil))
		return
	}
	vfAssert(label+"-size", g.Size() == t.Size())
	for _, k := range probes {
		gs, gok := g.MapSetDef[k]
		tv, tok := t.SetForInterfaceDef[k]
		vfAssert(label+"-haskey", gok == tok)
		if gok && tok {
			var ts *StreamForInterfaceDef
			if tv != nil {
				ts, _ = tv.(*StreamForInterfaceDef)
			}
			glen, tlen := 0, 0
			if gs != nil {
				glen = gs.Len()
			}
			if ts != nil {
				tlen = ts.Len()
			}
			vfAssert(label+"-streamlen", glen == tlen)
			if gs != nil && ts != nil {
				c05SameList(label+"-stream", []int(*gs), []interface{}(*ts))
			}
		}
	}
}

func vh_C05_twin_StreamSet()          { c05TwinStreamSet(false) }
func vh_C05_twin_StreamSetNilStream() { c05TwinStreamSet(true) }

// allowNil=true additionally lets keys map to nil stream pointers (kept apart: the interface{} family
// stores them as typed nils inside interface values).
func c05TwinStreamSet(allowNil bool) {
	vfSetMapOrder(2)
	ga, ta, ka := c05StreamSets("a", allowNil)
	gb, tb, kb := c05StreamSets("b", allowNil)
	_, _ = ka, kb
	probes := []int{1, 2}
	ok := vfNoPanic("nopanic", func() {
		c05SameStreamSet("from", ga, ta, probes)
		c05SameStreamSet("clone", ga.Clone(), ta.Clone(), probes)
		c05SameStreamSet("union", ga.Union(gb), ta.Union(tb), probes)
		c05SameStreamSet("intersection", ga.Intersection(gb), ta.Intersection(tb), probes)
		c05SameStreamSet("minusstreams", ga.MinusStreams(gb), ta.MinusStreams(tb), probes)
		c05SameStreamSet("minus", c05AsStreamSet(ga.Minus(&gb.MapSetDef)), ta.Minus(tb), probes)
		vfAssert("issubset", ga.IsSubsetByKey(&gb.MapSetDef) == ta.IsSubsetByKey(tb))
		if gb.Size() == 0 {
			vfAssert("issuperset-of-empty-set", ga.IsSupersetByKey(&gb.MapSetDef) == ta.IsSupersetByKey(tb))
		} else {
			vfAssert("issuperset", ga.IsSupersetByKey(&gb.MapSetDef) == ta.IsSupersetByKey(tb))
		}
	})
	if ok {
		vfReach("end")
	}
}

func vh_C05_law_StreamSet() {
	vfSetMapOrder(3)
	ga, _, ka := c05StreamSets("a", false)
	gb, _, kb := c05StreamSets("b", false)
	if len(ka) == 0 || len(kb) == 0 {
		vfAssume(false)
	}
	x := vfInt("x")
	mem := func(s *StreamDef[int]) bool {
		if s == nil {
			return false
		}
		return vfMember([]int(*s), x)
	}
	ok := vfNoPanic("nopanic", func() {
		u := ga.Union(gb)
		it := ga.Intersection(gb)
		ms := ga.MinusStreams(gb)
		for k := 1; k <= 2; k++ {
			sa, ina := ga.MapSetDef[k]
			sb, inb := gb.MapSetDef[k]
			us, inu := u.MapSetDef[k]
			vfAssert("union-key", inu == (ina || inb))
			if inu {
				vfAssert("union-stream", mem(us) == vfOr(mem(sa), mem(sb)))
			}
			is, ini := it.MapSetDef[k]
			vfAssert("intersection-key", ini == (ina && inb))
			if ini && sa != nil && sb != nil && sa.Len() > 0 && sb.Len() > 0 {
				vfAssert("intersection-stream", mem(is) == vfAnd(mem(sa), mem(sb)))
			}
			mss, inm := ms.MapSetDef[k]
			vfAssert("minusstreams-key", inm == ina)
			if inm && ina {
				vfAssert("minusstreams-stream", mem(mss) == vfAnd(mem(sa), !mem(sb)))
			}
		}
	})
	if ok {
		vfReach("end")
	}
}

// AT SCALE: the same twin / law checks on CONCRETE operands whose length is taken from the code (vfProbe: just beyond
// every integer constant the set functions compare a length or index with - a fast path, a pre-sizing limit, a batch
// size in the CURRENT source), next to the small size 6. Elements come from a family of 5 values so that repeats and
// common values are frequent. On a tree without such constants this is one small concrete run.
func vh_C05_AtScale() {
	vfSetMapOrder(2)
	n := vfProbe("n", "Intersection|Union|Difference|Minus|IsSubset|IsSuperset|Distinct|Dedupe|SliceToMap|Exists", 6, 6)
	long := make([]int, n)
	for i := range long {
		long[i] = (i * 3) % 5
	}
	short := []int{3, 1, 3, 9}
	firstLong := vfChoose("long-operand-first", 2) == 0
	a, b := long, short
	if !firstLong {
		a, b = short, long
	}
	ba, bb := c05Box(a), c05Box(b)
	noDup := func(label string, l []int) {
		seen := map[int]bool{}
		ok := true
		for _, v := range l {
			if seen[v] {
				ok = false
			}
			seen[v] = true
		}
		vfAssert(label+"-no-duplicates", ok)
	}
	member := func(l []int, v int) bool {
		for _, x := range l {
			if x == v {
				return true
			}
		}
		return false
	}
	ok := vfNoPanic("nopanic", func() {
		gi, gu, gm, gd := Intersection(a, b), Union(a, b), Minus(a, b), Distinct(a...)
		c05SameList("intersection", gi, IntersectionForInterface(ba, bb))
		c05SameList("minus", gm, MinusForInterface(ba, bb))
		c05SameList("distinct", gd, DistinctForInterface(ba...))
		vfAssert("issubset", IsSubset(a, b) == IsSubsetForInterface(ba, bb))
		vfAssert("issuperset", IsSuperset(a, b) == IsSupersetForInterface(ba, bb))
		noDup("intersection", gi)
		noDup("union", gu)
		// (Minus keeps the repeats of its first operand: not a set result)
		noDup("distinct", gd)
		for v := 0; v < 10; v++ {
			inA, inB := member(a, v), member(b, v)
			vfAssert("intersection-membership", member(gi, v) == (inA && inB))
			vfAssert("union-membership", member(gu, v) == (inA || inB))
			vfAssert("minus-membership", member(gm, v) == (inA && !inB))
		}
		// the stream and stream-set methods delegate to the slice functions
		c05SameStream("stream-intersection", StreamFromArray(a).Intersection(StreamFromArray(b)), StreamForInterface.FromArray(ba).Intersection(StreamForInterface.FromArray(bb)))
		c05SameStream("stream-minus", StreamFromArray(a).Minus(StreamFromArray(b)), StreamForInterface.FromArray(ba).Minus(StreamForInterface.FromArray(bb)))
		c05SameStream("stream-distinct", StreamFromArray(a).Distinct(), StreamForInterface.FromArray(ba).Distinct())
	})
	if ok {
		vfReach("end")
	}
}

// stream-set union when the receiver's streams have SPARE CAPACITY behind them (two windows of one array; a stream grown
// by append): x is in the union's stream under a key iff it is in one of the operands' streams under that key, the
// receiver's streams are unchanged, and two unions of one receiver do not disturb each other - for both families
func vh_C05_law_StreamSetSpareCapacity() {
	vfSetMapOrder(2)
	a, b, c, d, e, f, g := vfInt("a"), vfInt("b"), vfInt("c"), vfInt("d"), vfInt("e"), vfInt("f"), vfInt("g")
	arr := []int{a, b, c, d}
	probe := vfInt("probe")
	inK1 := vfOr(vfOr(probe == a, probe == b), vfOr(probe == e, probe == f))
	inK1g := vfOr(vfOr(probe == a, probe == b), probe == g)
	if vfChoose("family", 2) == 0 {
		w1, w2 := StreamDef[int](arr[:2]), StreamDef[int](arr[2:])
		recv := StreamSetFromMap(map[int]*StreamDef[int]{1: &w1, 2: &w2})
		var u1, u2 *StreamSetDef[int, int]
		if !vfNoPanic("nopanic", func() {
			u1 = recv.Union(StreamSetFromMap(map[int]*StreamDef[int]{1: StreamFromArray([]int{e, f})}))
			u2 = recv.Union(StreamSetFromMap(map[int]*StreamDef[int]{1: StreamFromArray([]int{g})}))
		}) {
			return
		}
		vfAssert("union-stream-member", vfMember([]int(*u1.MapSetDef[1]), probe) == inK1)
		vfAssert("union-stream-member", vfMember([]int(*u2.MapSetDef[1]), probe) == inK1g)
		inK2 := vfOr(probe == c, probe == d)
		vfAssert("union-other-key-untouched", vfAnd(vfMember([]int(*u1.MapSetDef[2]), probe) == inK2, vfMember([]int(*u2.MapSetDef[2]), probe) == inK2))
		vfAssert("operands-unmodified", vfAnd(vfSliceEq([]int(w1), []int{a, b}), vfSliceEq([]int(w2), []int{c, d})))
	} else {
		barr := c05Box(arr)
		w1, w2 := StreamForInterfaceDef(barr[:2]), StreamForInterfaceDef(barr[2:])
		recv := StreamSetForInterface.Clone()
		recv.Set(1, &w1)
		recv.Set(2, &w2)
		arg := func(vs ...int) *StreamSetForInterfaceDef {
			s := StreamSetForInterface.Clone()
			s.Set(1, StreamForInterface.FromArray(c05Box(vs)))
			return s
		}
		var u1, u2 *StreamSetForInterfaceDef
		if !vfNoPanic("nopanic", func() { u1 = recv.Union(arg(e, f)); u2 = recv.Union(arg(g)) }) {
			return
		}
		s1, _ := u1.Get(1).(*StreamForInterfaceDef)
		s2, _ := u2.Get(1).(*StreamForInterfaceDef)
		o1, _ := u1.Get(2).(*StreamForInterfaceDef)
		o2, _ := u2.Get(2).(*StreamForInterfaceDef)
		if s1 == nil || s2 == nil || o1 == nil || o2 == nil {
			vfAssert("union-streams-present", false)
			return
		}
		vfAssert("union-stream-member", vfMember(c05U(s1), probe) == inK1)
		vfAssert("union-stream-member", vfMember(c05U(s2), probe) == inK1g)
		inK2 := vfOr(probe == c, probe == d)
		vfAssert("union-other-key-untouched", vfAnd(vfMember(c05U(o1), probe) == inK2, vfMember(c05U(o2), probe) == inK2))
		vfAssert("operands-unmodified", vfAnd(vfSliceEq(c05U(&w1), []int{a, b}), vfSliceEq(c05U(&w2), []int{c, d})))
	}
	vfReach("end")
}

func c05U(s *StreamForInterfaceDef) []int {
	u, _ := c05Unbox([]interface{}(*s))
	return u
}
