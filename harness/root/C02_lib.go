package fpgo

import "errors"

// Reference arithmetic for C02, in plain Go on (sign, magnitude) pairs so that it is exact for every
// source/target combination, runs under the symbolic engine and natively (replay) alike.

type c02Num struct {
	neg bool
	mag uint64
}

func c02FromS(x int64) c02Num {
	neg := x < 0
	return c02Num{neg, uint64(vfIte(neg, int(-x), int(x)))}
}

func c02FromU(x uint64) c02Num { return c02Num{false, x} }

func c02Le(a, b c02Num) bool {
	return vfOr(vfAnd(a.neg, !b.neg),
		vfOr(vfAnd(vfAnd(a.neg, b.neg), a.mag >= b.mag),
			vfAnd(vfAnd(!a.neg, !b.neg), a.mag <= b.mag)))
}

func c02Eq(a, b c02Num) bool { return vfAnd(a.neg == b.neg, a.mag == b.mag) }

func c02In(x, lo, hi c02Num) bool { return vfAnd(c02Le(lo, x), c02Le(x, hi)) }

// integer (or integer numeral) source -> integer target
func c02IntInt(x, r c02Num, err error, lo, hi, plo, phi c02Num) {
	ok := err == nil
	vfAssert("A1", vfImplies(ok, c02Eq(x, r)))
	vfAssert("A2", vfImplies(c02In(x, plo, phi), ok))
	vfAssert("A3", vfImplies(!c02In(x, lo, hi), !ok))
}

func c02BoolInt(x bool, r c02Num, err error) {
	vfAssert("A2", err == nil)
	vfAssert("A1", vfAnd(!r.neg, r.mag == uint64(vfIte(x, 1, 0))))
}

// c02Exact: the conversion cannot fail and must give exactly the reference value.
func c02Exact(same bool, err error) {
	vfAssert("A2", err == nil)
	vfAssert("A1", vfImplies(err == nil, same))
}

// c02RNA: round half away from zero of x as sign/magnitude; requires x not NaN and |x| < 2^64.
// Independent of math.Round: truncation and the fractional part are exact in float64.
func c02RNA(x float64) c02Num {
	neg := x < 0
	ax := x
	if neg {
		ax = -x
	}
	var mag uint64
	if ax >= 4503599627370496.0 { // 2^52: already integral
		mag = uint64(ax)
	} else {
		t := uint64(ax)
		f := ax - float64(t)
		if f >= 0.5 {
			t++
		}
		mag = t
	}
	if mag == 0 {
		neg = false
	}
	return c02Num{neg, mag}
}

// float source -> integer target.
// outLo/outHi: largest/smallest float64 whose rounding falls below/above the target type;
// fitLo/fitHi: smallest/largest float64 inside the (portable) target range.
func c02FloatInt(x float64, r c02Num, err error, outLo, outHi, fitLo, fitHi float64) {
	ok := err == nil
	isnan := x != x
	out := vfOr(isnan, vfOr(x <= outLo, x >= outHi))
	vfAssert("A3", vfImplies(out, !ok))
	vfAssert("A2", vfImplies(vfAnd(fitLo <= x, x <= fitHi), ok))
	if ok {
		if isnan {
			return
		}
		if x <= outLo {
			return
		}
		if x >= outHi {
			return
		}
		vfAssert("A1", c02Eq(r, c02RNA(x)))
	}
}

// float64 -> float32: nearest (ties to even); a finite value that overflows float32 must be refused.
func c02F64F32(x float64, r float32, err error) {
	ok := err == nil
	const maxF32 = 0x1.fffffep+127
	const overF32 = 0x1.ffffffp+127 // values >= this round to +Inf
	vfAssert("A1", vfImplies(ok, vfOr(r == float32(x), vfAnd(r != r, x != x))))
	vfAssert("A2", vfImplies(vfAnd(-maxF32 <= x, x <= maxF32), ok))
	finiteOver := vfAnd(vfOr(x >= overF32, x <= -overF32), vfAnd(x <= 0x1.fffffffffffffp+1023, x >= -0x1.fffffffffffffp+1023))
	vfAssert("A3", vfImplies(finiteOver, !ok))
}

// Numeric strings OUTSIDE the shape the numeral term covers (a plain decimal of a 64-bit integer): values beyond 64
// bits, float notation, infinities, signs and padding. Concrete strings; for each one the reference says which
// integer it denotes, if it denotes an integer within 64 bits at all. Clause checked (A1/A3): a nil error comes with
// exactly that integer, within the target's range - never with anything else. (Whether such a string is accepted at all
// is left open: "1.0" may or may not parse as an integer.)
type c02Special struct {
	s      string
	isInt  bool // denotes an integer that fits (sign, 64-bit magnitude)
	val    c02Num
	finite bool // denotes a finite real number (for float targets)
	f      float64
}

var c02Specials = []c02Special{
	{"9223372036854775808", true, c02Num{false, 1 << 63}, true, 9223372036854775808},
	{"-9223372036854775809", false, c02Num{}, true, -9223372036854775809},
	{"18446744073709551616", false, c02Num{}, true, 18446744073709551616},
	{"340282366920938463463374607431768211456", false, c02Num{}, true, 340282366920938463463374607431768211456},
	{"1e19", false, c02Num{}, true, 1e19},
	{"-1e30", false, c02Num{}, true, -1e30},
	{"1e3", true, c02Num{false, 1000}, true, 1000},
	{"2.0", true, c02Num{false, 2}, true, 2},
	{"2.5", false, c02Num{}, true, 2.5},
	{"Inf", false, c02Num{}, false, 0},
	{"-Inf", false, c02Num{}, false, 0},
	{"NaN", false, c02Num{}, false, 0},
	{"+5", true, c02Num{false, 5}, true, 5},
	{"-0", true, c02Num{false, 0}, true, 0},
	{"007", true, c02Num{false, 7}, true, 7},
}

func vh_C02_SpecialStrings() {
	sp := c02Specials[vfChoose("string", len(c02Specials))]
	sg := func(x int64) c02Num { return c02FromS(x) }
	check := func(name string, r c02Num, err error, lo, hi c02Num) {
		if err != nil {
			return // refusing is always allowed here
		}
		vfAssert(name+"-A3-nil-error-only-for-a-representable-integer", sp.isInt && c02In(sp.val, lo, hi))
		if sp.isInt {
			vfAssert(name+"-A1-value", c02Eq(sp.val, r))
		}
	}
	for _, generic := range []bool{true, false} {
		var m MaybeDef[interface{}]
		if generic {
			m = JustGenerics[interface{}](sp.s)
		} else {
			m = Maybe.Just(sp.s)
		}
		vfNoPanic("nopanic", func() {
			i, e := m.ToInt()
			check("ToInt", sg(int64(i)), e, sg(-1<<63), sg(1<<63-1))
			i32, e := m.ToInt32()
			check("ToInt32", sg(int64(i32)), e, sg(-1<<31), sg(1<<31-1))
			i64, e := m.ToInt64()
			check("ToInt64", sg(i64), e, sg(-1<<63), sg(1<<63-1))
			// float targets: a nil error comes with a finite denoted number's nearest value (or the infinity the text names)
			f64, e := m.ToFloat64()
			if e == nil && sp.finite {
				vfAssert("ToFloat64-A1-value", f64 == sp.f)
			}
		})
	}
	vfReach("end")
}

// c02Is: err is target or wraps it ("fails with ErrConversionUnsupported" does not forbid adding context with %w)
func c02Is(err, target error) bool { return errors.Is(err, target) }
