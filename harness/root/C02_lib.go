package fpgo

// Reference arithmetic for C02, in plain Go on (sign, magnitude) pairs so that it is exact for every
// source/target combination, runs under the symbolic engine and natively (replay) alike.

type c02Num struct {
	neg bool
	mag uint64
}

func c02FromS(x int64) c02Num {
	neg := x < 0
	return c02Num{neg, uint64(vfIte(neg, int(-x), int(x)))}
}

func c02FromU(x uint64) c02Num { return c02Num{false, x} }

func c02Le(a, b c02Num) bool {
	return vfOr(vfAnd(a.neg, !b.neg),
		vfOr(vfAnd(vfAnd(a.neg, b.neg), a.mag >= b.mag),
			vfAnd(vfAnd(!a.neg, !b.neg), a.mag <= b.mag)))
}

func c02Eq(a, b c02Num) bool { return vfAnd(a.neg == b.neg, a.mag == b.mag) }

func c02In(x, lo, hi c02Num) bool { return vfAnd(c02Le(lo, x), c02Le(x, hi)) }

// integer (or integer numeral) source -> integer target
func c02IntInt(x, r c02Num, err error, lo, hi, plo, phi c02Num) {
	ok := err == nil
	vfAssert("A1", vfImplies(ok, c02Eq(x, r)))
	vfAssert("A2", vfImplies(c02In(x, plo, phi), ok))
	vfAssert("A3", vfImplies(!c02In(x, lo, hi), !ok))
}

func c02BoolInt(x bool, r c02Num, err error) {
	vfAssert("A2", err == nil)
	vfAssert("A1", vfAnd(!r.neg, r.mag == uint64(vfIte(x, 1, 0))))
}

// c02Exact: the conversion cannot fail and must give exactly the reference value.
func c02Exact(same bool, err error) {
	vfAssert("A2", err == nil)
	vfAssert("A1", vfImplies(err == nil, same))
}

// c02RNA: round half away from zero of x as sign/magnitude; requires x not NaN and |x| < 2^64.
// Independent of math.Round: truncation and the fractional part are exact in float64.
func c02RNA(x float64) c02Num {
	neg := x < 0
	ax := x
	if neg {
		ax = -x
	}
	var mag uint64
	if ax >= 4503599627370496.0 { // 2^52: already integral
		mag = uint64(ax)
	} else {
		t := uint64(ax)
		f := ax - float64(t)
		if f >= 0.5 {
			t++
		}
		mag = t
	}
	if mag == 0 {
		neg = false
	}
	return c02Num{neg, mag}
}

// float source -> integer target.
// outLo/outHi: largest/smallest float64 whose rounding falls below/above the target type;
// fitLo/fitHi: smallest/largest float64 inside the (portable) target range.
func c02FloatInt(x float64, r c02Num, err error, outLo, outHi, fitLo, fitHi float64) {
	ok := err == nil
	isnan := x != x
	out := vfOr(isnan, vfOr(x <= outLo, x >= outHi))
	vfAssert("A3", vfImplies(out, !ok))
	vfAssert("A2", vfImplies(vfAnd(fitLo <= x, x <= fitHi), ok))
	if ok {
		if isnan {
			return
		}
		if x <= outLo {
			return
		}
		if x >= outHi {
			return
		}
		vfAssert("A1", c02Eq(r, c02RNA(x)))
	}
}

// float64 -> float32: nearest (ties to even); a finite value that overflows float32 must be refused.
func c02F64F32(x float64, r float32, err error) {
	ok := err == nil
	const maxF32 = 0x1.fffffep+127
	const overF32 = 0x1.ffffffp+127 // values >= this round to +Inf
	vfAssert("A1", vfImplies(ok, vfOr(r == float32(x), vfAnd(r != r, x != x))))
	vfAssert("A2", vfImplies(vfAnd(-maxF32 <= x, x <= maxF32), ok))
	finiteOver := vfAnd(vfOr(x >= overF32, x <= -overF32), vfAnd(x <= 0x1.fffffffffffffp+1023, x >= -0x1.fffffffffffffp+1023))
	vfAssert("A3", vfImplies(finiteOver, !ok))
}
