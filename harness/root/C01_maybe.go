package fpgo

import "unsafe"

// C01: one notion of absence for every kind of value, both constructors, every observer; monad laws;
// ToMaybe flattens exactly one level; Clone; totality (no observer panics).
// absent := (v is the untyped nil) or (v is a nil pointer).

func c01Conv[T any](pfx string, m MaybeDef[T], absent bool) {
	chk := func(name string, err error) {
		vfAssert(pfx+"conv-nil-"+name, (err == ErrConversionNil) == absent)
	}
	vfNoPanic(pfx+"nopanic-conv", func() {
		_, e1 := m.ToInt()
		chk("ToInt", e1)
		_, e2 := m.ToInt32()
		chk("ToInt32", e2)
		_, e3 := m.ToInt64()
		chk("ToInt64", e3)
		_, e4 := m.ToFloat32()
		chk("ToFloat32", e4)
		_, e5 := m.ToFloat64()
		chk("ToFloat64", e5)
		_, e6 := m.ToBool()
		chk("ToBool", e6)
	})
	// the wider conversion family is reachable on the concrete type
	type extra interface {
		ToInt8() (int8, error)
		ToInt16() (int16, error)
		ToByte() (byte, error)
		ToUint8() (uint8, error)
		ToUint() (uint, error)
		ToUint16() (uint16, error)
		ToUint32() (uint32, error)
		ToUint64() (uint64, error)
		ToUintptr() (uintptr, error)
	}
	var mi interface{} = m
	if x, ok := mi.(extra); ok {
		vfNoPanic(pfx+"nopanic-conv-extra", func() {
			_, e1 := x.ToInt8()
			chk("ToInt8", e1)
			_, e2 := x.ToInt16()
			chk("ToInt16", e2)
			_, e3 := x.ToByte()
			chk("ToByte", e3)
			_, e4 := x.ToUint8()
			chk("ToUint8", e4)
			_, e5 := x.ToUint()
			chk("ToUint", e5)
			_, e6 := x.ToUint16()
			chk("ToUint16", e6)
			_, e7 := x.ToUint32()
			chk("ToUint32", e7)
			_, e8 := x.ToUint64()
			chk("ToUint64", e8)
			_, e9 := x.ToUintptr()
			chk("ToUintptr", e9)
		})
	} else {
		vfAssert(pfx+"extra-conversions-available", false)
	}
}

// c01Check: every observer of m agrees with `absent`; v is the value m was built from.
func c01Check[T any](pfx string, m MaybeDef[T], v T, absent bool, fb T, same func(a, b T) bool) {
	vfNoPanic(pfx+"nopanic-core", func() {
		vfAssert(pfx+"isnil", m.IsNil() == absent)
		vfAssert(pfx+"ispresent", m.IsPresent() == !absent)
		got := m.Or(fb)
		if absent {
			vfAssert(pfx+"or-fallback", same(got, fb))
		} else {
			vfAssert(pfx+"or-value", same(got, v))
		}
		n := 0
		m.Let(func() { n++ })
		if absent {
			vfAssert(pfx+"let-never", n == 0)
		} else {
			vfAssert(pfx+"let-once", n == 1)
		}
		vfAssert(pfx+"unwrapinterface", (m.UnwrapInterface() == nil) == absent)
		vfAssert(pfx+"type", (m.Type() == nil) == absent)
		if absent {
			vfAssert(pfx+"tostring-nil", m.ToString() == "<nil>")
		}
	})
	c01Conv(pfx, m, absent)
	vfNoPanic(pfx+"nopanic-tostring", func() { _ = m.ToString() })
	vfNoPanic(pfx+"nopanic-toptr", func() { _ = m.ToPtr() })
	vfNoPanic(pfx+"nopanic-tomaybe", func() { _ = m.ToMaybe() })
	vfNoPanic(pfx+"nopanic-kind", func() {
		_ = m.Kind()
		_ = m.IsValid()
		_ = m.IsPtr()
		_ = m.IsKind(m.Kind())
		_ = m.IsType(m.Type())
		_ = m.Unwrap()
	})
	var c MaybeDef[T]
	if vfNoPanic(pfx+"nopanic-clone", func() { c = m.Clone() }) {
		vfNoPanic(pfx+"nopanic-clone-observe", func() {
			vfAssert(pfx+"clone-isnil", c.IsNil() == absent)
			vfAssert(pfx+"clone-ispresent", c.IsPresent() == !absent)
		})
	}
	vfNoPanic(pfx+"nopanic-flatmap", func() {
		r := m.FlatMap(func(x T) MaybeDef[T] { return JustGenerics(x) })
		vfAssert(pfx+"flatmap-rightid", r.IsNil() == absent)
	})
}

// c01Both runs the checks through both constructors.
func c01Both[T any](v T, absent bool, fb T, same func(a, b T) bool) {
	c01Check("G-", JustGenerics(v), v, absent, fb, same)
	var iv interface{} = v
	var ifb interface{} = fb
	sameI := func(a, b interface{}) bool {
		x, ok1 := a.(T)
		y, ok2 := b.(T)
		if !ok1 || !ok2 {
			return ok1 == ok2 && a == nil && b == nil
		}
		return same(x, y)
	}
	c01Check("J-", Maybe.Just(iv), iv, absent, ifb, sameI)
	// JustGenerics with T = interface{}
	c01Check("GI-", JustGenerics(iv), iv, absent, ifb, sameI)
	vfReach("end")
}

func c01Eq[T comparable](a, b T) bool { return a == b }

func vh_C01_bool()    { c01Both(vfBool("v"), false, vfBool("fb"), c01Eq[bool]) }
func vh_C01_int()     { c01Both(vfInt("v"), false, vfInt("fb"), c01Eq[int]) }
func vh_C01_int8()    { c01Both(vfInt8("v"), false, vfInt8("fb"), c01Eq[int8]) }
func vh_C01_int16()   { c01Both(vfInt16("v"), false, vfInt16("fb"), c01Eq[int16]) }
func vh_C01_int32()   { c01Both(vfInt32("v"), false, vfInt32("fb"), c01Eq[int32]) }
func vh_C01_int64()   { c01Both(vfInt64("v"), false, vfInt64("fb"), c01Eq[int64]) }
func vh_C01_uint()    { c01Both(vfUint("v"), false, vfUint("fb"), c01Eq[uint]) }
func vh_C01_uint8()   { c01Both(vfUint8("v"), false, vfUint8("fb"), c01Eq[uint8]) }
func vh_C01_uint16()  { c01Both(vfUint16("v"), false, vfUint16("fb"), c01Eq[uint16]) }
func vh_C01_uint32()  { c01Both(vfUint32("v"), false, vfUint32("fb"), c01Eq[uint32]) }
func vh_C01_uint64()  { c01Both(vfUint64("v"), false, vfUint64("fb"), c01Eq[uint64]) }
func vh_C01_uintptr() { c01Both(vfUintptr("v"), false, vfUintptr("fb"), c01Eq[uintptr]) }
func vh_C01_float32() {
	c01Both(vfFloat32("v"), false, vfFloat32("fb"), func(a, b float32) bool { return vfOr(a == b, vfAnd(a != a, b != b)) })
}
func vh_C01_float64() {
	c01Both(vfFloat64("v"), false, vfFloat64("fb"), func(a, b float64) bool { return vfOr(a == b, vfAnd(a != a, b != b)) })
}
func vh_C01_complex128() { c01Both(complex(1, 2), false, complex(3, 4), c01Eq[complex128]) }
func vh_C01_string()     { c01Both("abc", false, "fb", c01Eq[string]) }
func vh_C01_stringNumeral() {
	c01Both(vfNumStr(vfInt64("n")), false, "fb", c01Eq[string])
}
func vh_C01_array() { c01Both([2]int{vfInt("a"), vfInt("b")}, false, [2]int{}, c01Eq[[2]int]) }

type c01Empty struct{}
type c01Rec struct {
	A int
	b string
}

func vh_C01_structEmpty() { c01Both(c01Empty{}, false, c01Empty{}, c01Eq[c01Empty]) }
func vh_C01_struct()      { c01Both(c01Rec{vfInt("a"), "x"}, false, c01Rec{}, c01Eq[c01Rec]) }

func vh_C01_slice() {
	var v []int
	if !vfBool("nil") {
		v = []int{vfInt("e")}
	}
	fb := []int{7}
	c01Both(v, false, fb, func(a, b []int) bool { return vfOr(vfSameStorage(a, b), a == nil && b == nil) })
}

func vh_C01_map() {
	var v map[string]int
	if !vfBool("nil") {
		v = map[string]int{"k": vfInt("e")}
	}
	fb := map[string]int{}
	c01Both(v, false, fb, func(a, b map[string]int) bool { return vfOr(vfSameStorage(a, b), a == nil && b == nil) })
}

func vh_C01_func() {
	var v func()
	if !vfBool("nil") {
		v = func() {}
	}
	c01Both(v, false, func() {}, func(a, b func()) bool { return (a == nil) == (b == nil) })
}

func vh_C01_chan() {
	var v chan int
	if !vfBool("nil") {
		v = make(chan int)
	}
	c01Both(v, false, make(chan int), c01Eq[chan int])
}

func vh_C01_ptrInt() {
	var v *int
	isNil := vfBool("nil")
	if !isNil {
		x := vfInt("x")
		v = &x
	}
	fb := new(int)
	c01Both(v, isNil, fb, c01Eq[*int])
}

func vh_C01_ptrStruct() {
	var v *c01Rec
	isNil := vfBool("nil")
	if !isNil {
		v = &c01Rec{A: vfInt("a")}
	}
	c01Both(v, isNil, &c01Rec{}, c01Eq[*c01Rec])
}

func vh_C01_ptrPtr() {
	var v **int
	isNil := vfBool("outer-nil")
	if !isNil {
		var inner *int
		if !vfBool("inner-nil") {
			x := vfInt("x")
			inner = &x
		}
		v = &inner
	}
	c01Both(v, isNil, new(*int), c01Eq[**int])
}

type c01Err struct{ msg string }

func (e c01Err) Error() string { return e.msg }

func vh_C01_errorIface() {
	var v error
	isNil := vfBool("nil")
	if !isNil {
		v = c01Err{"boom"}
	}
	c01Both(v, isNil, error(c01Err{"fb"}), func(a, b error) bool { return a == b })
}

func vh_C01_unsafePointer() {
	var v unsafe.Pointer
	if !vfBool("nil") {
		x := 1
		v = unsafe.Pointer(&x)
	}
	c01Both(v, false, unsafe.Pointer(new(int)), c01Eq[unsafe.Pointer])
}

func vh_C01_untypedNil() {
	var fb interface{} = vfInt("fb")
	same := func(a, b interface{}) bool { return a == b }
	c01Check("J-", Maybe.Just(nil), nil, true, fb, same)
	c01Check("GI-", JustGenerics[interface{}](nil), nil, true, fb, same)
	c01Check("None-", MaybeDef[interface{}](None), nil, true, fb, same)
	vfReach("end")
}

// ---------- ToMaybe flattens exactly one level ----------

func c01Depth(m MaybeDef[interface{}]) int {
	d := 1
	for {
		if m.IsNil() {
			return d
		}
		inner, ok := m.UnwrapInterface().(MaybeDef[interface{}])
		if !ok {
			return d
		}
		d++
		m = inner
		if d > 6 {
			return d
		}
	}
}

func vh_C01_ToMaybe() {
	x := vfInt("x")
	d1 := Maybe.Just(x)
	d2 := Maybe.Just(d1)
	d3 := Maybe.Just(d2)
	vfNoPanic("nopanic", func() {
		vfAssert("depth1-stays", c01Depth(d1.ToMaybe()) == 1)
		vfAssert("depth2-to-1", c01Depth(d2.ToMaybe()) == 1)
		vfAssert("depth3-to-2", c01Depth(d3.ToMaybe()) == 2)
		v, _ := d2.ToMaybe().ToInt()
		vfAssert("depth2-value", v == x)
		v3, _ := d3.ToMaybe().ToMaybe().ToInt()
		vfAssert("depth3-value", v3 == x)
		vfAssert("none-stays-none", None.ToMaybe().IsNil())
	})
	vfNoPanic("nopanic-just-none", func() {
		jn := Maybe.Just(None)
		vfAssert("just-none-flattens-to-none", jn.ToMaybe().IsNil())
	})
	vfReach("end")
}

// ---------- monad laws (int payload; f, g arbitrary: uninterpreted functions deciding value and presence) ----------

func c01F(name string) func(interface{}) MaybeDef[interface{}] {
	return func(v interface{}) MaybeDef[interface{}] {
		x, _ := v.(int)
		if v == nil {
			x = -1
		}
		if vfPred(name+".present", x) {
			return Maybe.Just(vfFn(name, x))
		}
		return None
	}
}

func c01Equiv(label string, a, b MaybeDef[interface{}]) {
	vfAssert(label+"-isnil", a.IsNil() == b.IsNil())
	av, _ := a.UnwrapInterface().(int)
	bv, _ := b.UnwrapInterface().(int)
	vfAssert(label+"-value", av == bv)
}

func vh_C01_monadLaws() {
	f, g := c01F("f"), c01F("g")
	x := vfInt("x")
	var m MaybeDef[interface{}] = Maybe.Just(x)
	if vfBool("none") {
		m = None
	}
	vfNoPanic("nopanic", func() {
		c01Equiv("left-identity", Maybe.Just(x).FlatMap(f), f(x))
		c01Equiv("right-identity", m.FlatMap(func(v interface{}) MaybeDef[interface{}] { return Maybe.Just(v) }), m)
		c01Equiv("associativity", m.FlatMap(f).FlatMap(g), m.FlatMap(func(v interface{}) MaybeDef[interface{}] { return f(v).FlatMap(g) }))
		c01Equiv("flatmap-is-f-of-value", m.FlatMap(f), f(m.Unwrap()))
	})
	// generic instantiation
	fi := func(v int) MaybeDef[int] { return JustGenerics(vfFn("fi", v)) }
	gi := func(v int) MaybeDef[int] { return JustGenerics(vfFn("gi", v)) }
	mi := JustGenerics(x)
	vfNoPanic("nopanic-generic", func() {
		vfAssert("g-left-identity", mi.FlatMap(fi).Unwrap() == fi(x).Unwrap())
		vfAssert("g-right-identity", mi.FlatMap(func(v int) MaybeDef[int] { return JustGenerics(v) }).Unwrap() == x)
		vfAssert("g-associativity", mi.FlatMap(fi).FlatMap(gi).Unwrap() == mi.FlatMap(func(v int) MaybeDef[int] { return fi(v).FlatMap(gi) }).Unwrap())
	})
	vfReach("end")
}

// ---------- Clone: equal Maybe, pointer target is a distinct, independent copy ----------

func vh_C01_clonePtr() {
	x := vfInt("x")
	p := &x
	vfNoPanic("nopanic-generic", func() {
		c := JustGenerics(p).Clone()
		q := c.Unwrap()
		vfAssert("g-distinct", q != p)
		if q != nil {
			vfAssert("g-equal-target", *q == x)
			*q = x + 1
			vfAssert("g-independent", *p == x)
		}
	})
	vfNoPanic("nopanic-just", func() {
		c := Maybe.Just(p).Clone()
		q, ok := c.Unwrap().(*int)
		vfAssert("j-is-ptr", ok)
		if ok && q != nil {
			vfAssert("j-distinct", q != p)
			vfAssert("j-equal-target", *q == x)
		}
	})
	vfNoPanic("nopanic-value", func() {
		c := JustGenerics(x).Clone()
		vfAssert("value-equal", c.Unwrap() == x)
		cj := Maybe.Just(x).Clone()
		v, _ := cj.ToInt()
		vfAssert("value-equal-just", v == x)
	})
	vfNoPanic("nopanic-cloneto", func() {
		dst := new(int)
		c := CloneTo(JustGenerics(p), dst)
		vfAssert("cloneto-into-dest", vfAnd(c.Unwrap() == dst, *dst == x))
	})
	vfReach("end")
}

// ---------- ToPtr ----------

func vh_C01_toPtr() {
	x := vfInt("x")
	vfNoPanic("nopanic-value", func() {
		p := JustGenerics(x).ToPtr()
		vfAssert("value", vfAnd(p != nil, *p == x))
	})
	vfNoPanic("nopanic-nilptr", func() {
		_ = JustGenerics[*int](nil).ToPtr()
	})
	vfNoPanic("nopanic-ptr", func() {
		pp := JustGenerics(&x).ToPtr()
		vfAssert("ptr", vfAnd(pp != nil, *pp != nil))
		if pp != nil && *pp != nil {
			vfAssert("ptr-value", **pp == x)
		}
	})
	vfNoPanic("nopanic-none", func() { vfAssert("none", None.ToPtr() == nil) })
	vfNoPanic("nopanic-none", func() {
		dst := x
		c := None.CloneTo(&dst) // an absent Maybe clones to an absent Maybe and leaves the destination alone
		vfAssert("none-stays-none", vfAnd(c.IsNil(), !c.IsPresent()))
		vfAssert("none", dst == x)
		vfAssert("none-stays-none", None.Clone().IsNil())
	})
	vfReach("end")
}

// a pointer type with a String method that tolerates a nil receiver: an ABSENT Maybe of that type still renders as
// "<nil>" (one notion of absence for every observer), a present one renders through the method
type c01Tag struct{ n int }

func (t *c01Tag) String() string {
	if t == nil {
		return "nil-tag"
	}
	return "tag"
}

func vh_C01_StringerPointer() {
	var p *c01Tag
	present := vfChoose("pointer", 2) == 1
	if present {
		p = &c01Tag{vfInt("n")}
	}
	var texts []string
	var nils []bool
	ok := vfNoPanic("nopanic", func() {
		g := JustGenerics[*c01Tag](p)
		gi := JustGenerics[interface{}](p)
		j := Maybe.Just(p)
		texts = []string{g.ToString(), gi.ToString(), j.ToString()}
		nils = []bool{g.IsNil(), gi.IsNil(), j.IsNil()}
	})
	if !ok {
		return
	}
	for i, pfx := range []string{"G-", "GI-", "J-"} {
		vfAssert(pfx+"isnil", nils[i] == !present)
		if present {
			vfAssert("lemma/"+pfx+"tostring-present-uses-the-string-method", texts[i] == "tag") // how a PRESENT value renders is not part of C01
		} else {
			vfAssert(pfx+"tostring-nil", texts[i] == "<nil>")
		}
	}
	vfReach("end")
}
