package fpgo

// Shared builders for symbolic slices/maps and fork-free comparison helpers.

// vfIntList: a slice with symbolic elements, symbolic-forked length in [0,maxLen] and 0..maxSpare cells of hidden
// spare capacity (also symbolic, so that exposing them is visible). Length 0 forks further into nil / empty-non-nil.
func vfIntList(name string, maxLen, maxSpare int) []int {
	n := vfRange(name+".len", 0, maxLen)
	spare := 0
	if maxSpare > 0 {
		spare = vfRange(name+".spare", 0, maxSpare)
	}
	if n == 0 && spare == 0 {
		if vfChoose(name+".nil", 2) == 1 {
			return nil
		}
	}
	back := make([]int, n+spare)
	for i := range back {
		back[i] = vfInt(name)
	}
	return back[:n]
}

// vfSmallIntList: elements constrained to a small domain so that duplicates are reachable.
func vfSmallIntList(name string, maxLen, maxSpare, dom int) []int {
	l := vfIntList(name, maxLen, maxSpare)
	full := l[:cap(l)]
	for i := range full {
		vfAssume(vfAnd(0 <= full[i], full[i] < dom))
	}
	return l
}

type vfPair struct{ A, B int }

func vfPairList(name string, maxLen int) []vfPair {
	n := vfRange(name+".len", 0, maxLen)
	l := make([]vfPair, n)
	for i := range l {
		l[i] = vfPair{vfInt(name + ".A"), vfInt(name + ".B")}
	}
	return l
}

// vfIntMap: a map with n in [0,maxLen] pairwise distinct symbolic keys and symbolic values; n == 0 forks nil / empty.
func vfIntMap(name string, maxLen int) map[int]int {
	n := vfRange(name+".len", 0, maxLen)
	if n == 0 {
		if vfChoose(name+".nil", 2) == 1 {
			return nil
		}
	}
	m := make(map[int]int)
	var keys []int
	for i := 0; i < n; i++ {
		k := vfInt(name + ".k")
		for _, o := range keys {
			vfAssume(k != o)
		}
		keys = append(keys, k)
		m[k] = vfInt(name + ".v")
	}
	return m
}

// vfCount: number of occurrences of x in l, without forking.
func vfCount(l []int, x int) int {
	c := 0
	for _, v := range l {
		c += vfIte(v == x, 1, 0)
	}
	return c
}

// vfSameMultiset: a and b hold the same elements with the same multiplicities (fork-free).
func vfSameMultiset(a, b []int) bool {
	if len(a) != len(b) {
		return false
	}
	ok := true
	for _, x := range a {
		ok = vfAnd(ok, vfCount(a, x) == vfCount(b, x))
	}
	return ok
}

// vfMember: x occurs in l (fork-free).
func vfMember(l []int, x int) bool {
	r := false
	for _, v := range l {
		r = vfOr(r, v == x)
	}
	return r
}

// vfNoDup: no two positions of l hold the same value (fork-free).
func vfNoDup(l []int) bool {
	ok := true
	for i := range l {
		for j := i + 1; j < len(l); j++ {
			ok = vfAnd(ok, l[i] != l[j])
		}
	}
	return ok
}

// vfSameSet: a and b have the same members (fork-free).
func vfSameSet(a, b []int) bool {
	ok := true
	for _, x := range a {
		ok = vfAnd(ok, vfMember(b, x))
	}
	for _, x := range b {
		ok = vfAnd(ok, vfMember(a, x))
	}
	return ok
}

// vfSliceEq: same length and same elements in order (fork-free; nil and empty are equal).
func vfSliceEq(a, b []int) bool {
	if len(a) != len(b) {
		return false
	}
	ok := true
	for i := range a {
		ok = vfAnd(ok, a[i] == b[i])
	}
	return ok
}

// ---- small reference definitions shared by several properties ----

func ref03Filter(keep func(int, int) bool, l []int) []int {
	var r []int
	for i, v := range l {
		if keep(v, i) {
			r = append(r, v)
		}
	}
	return r
}

func ref03Distinct(l []int) []int {
	var r []int
	for _, v := range l {
		seen := false
		for _, o := range r {
			if o == v {
				seen = true
			}
		}
		if !seen {
			r = append(r, v)
		}
	}
	return r
}
