package fpgo

// Builders shared by C04 and C05.

func c05Box(l []int) []interface{} {
	if l == nil {
		return nil
	}
	r := make([]interface{}, len(l))
	for i, v := range l {
		r[i] = v
	}
	return r
}

func c05Unbox(l []interface{}) ([]int, bool) {
	r := make([]int, 0, len(l))
	for _, v := range l {
		i, ok := v.(int)
		if !ok {
			return nil, false
		}
		r = append(r, i)
	}
	return r, true
}

func ref05InterOrdered(a, b []int) []int {
	var r []int
	for _, v := range ref03Distinct(a) {
		in := false
		for _, o := range b {
			if o == v {
				in = true
			}
		}
		if in {
			r = append(r, v)
		}
	}
	return r
}

// c05StreamSets builds the same key -> stream data in both families over the key universe {1,2}: each key is
// absent, mapped to a nil stream, or mapped to a stream of 0..2 symbolic elements. (Keys are only ever compared
// for equality, so concrete distinct keys lose no generality; stream elements stay symbolic.)
func c05StreamSetsN(name string, allowNil bool, nkeys, maxLen int) (*StreamSetDef[int, int], *StreamSetForInterfaceDef, []int) {
	g := map[int]*StreamDef[int]{}
	t := map[interface{}]*StreamForInterfaceDef{}
	var keys []int
	for k := 1; k <= nkeys; k++ {
		shape := vfChoose(name+".key", 3)
		if shape == 1 && !allowNil {
			vfAssume(false)
		}
		switch shape {
		case 0:
			continue
		case 1:
			g[k] = nil
			t[k] = nil
		default:
			l := vfIntList(name+".s", maxLen, 0)
			g[k] = StreamFromArray(l)
			t[k] = StreamForInterface.FromArray(c05Box(l))
		}
		keys = append(keys, k)
	}
	return StreamSetFromMap(g), StreamSetForInterfaceFromMap(t), keys
}

func c05AsStreamSet(s SetDef[int, *StreamDef[int]]) *StreamSetDef[int, int] {
	if s == nil {
		return nil
	}
	return &StreamSetDef[int, int]{MapSetDef: *s.AsMapSet()}
}

func c05StreamSets(name string, allowNil bool) (*StreamSetDef[int, int], *StreamSetForInterfaceDef, []int) {
	return c05StreamSetsN(name, allowNil, 2, 2)
}
