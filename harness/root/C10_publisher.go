package fpgo

// vf:instrument

import "sync"

// C10: Publish delivers each value exactly once per live subscription, in subscription order; (un)subscribing from
// inside a callback or from another goroutine never makes ANOTHER subscription be skipped or called twice.
// Bounds: <= 3 initial subscriptions, one re-entrant action per callback (nothing / unsubscribe self / unsubscribe
// another / subscribe a new one), 2 consecutive Publish calls; concurrent part: 1 publisher || 1 (un)subscriber,
// delay bound 1 (thorough 2) with scheduling points at every shared-memory access.

type c10Ev struct {
	id  int
	val int
}

func vh_C10_Reentrant() {
	p := PublisherNewGenerics[int]()
	n := vfRange("n", 1, 3)
	subs := make([]*Subscription[int], n+1)
	var log []c10Ev
	actions := make([]int, n)
	targets := make([]int, n)
	for i := 0; i < n; i++ {
		actions[i] = vfChoose("action", 4)
		if actions[i] == 2 {
			targets[i] = vfChoose("target", n)
		}
	}
	acted := make([]bool, n)
	removedDuring := make([]bool, n+1) // unsubscribed while the first Publish was running
	added := false
	for i := 0; i < n; i++ {
		id := i
		subs[id] = p.Subscribe(Subscription[int]{OnNext: func(v int) {
			log = append(log, c10Ev{id, v})
			if acted[id] {
				return
			}
			acted[id] = true
			switch actions[id] {
			case 1:
				removedDuring[id] = true
				p.Unsubscribe(subs[id])
			case 2:
				removedDuring[targets[id]] = true
				p.Unsubscribe(subs[targets[id]])
			case 3:
				if !added {
					added = true
					subs[n] = p.Subscribe(Subscription[int]{OnNext: func(v int) { log = append(log, c10Ev{n, v}) }})
				}
			}
		}})
	}
	v1, v2 := vfInt("v1"), vfInt("v2")
	if !vfNoPanic("nopanic-publish1", func() { p.Publish(v1) }) {
		return
	}
	count := func(l []c10Ev, id int) int {
		c := 0
		for _, e := range l {
			if e.id == id {
				c++
			}
		}
		return c
	}
	first := log
	for id := 0; id < n; id++ {
		if removedDuring[id] {
			// the subscription being removed may or may not see the value, but never twice
			vfAssert("removed-during-at-most-once", count(first, id) <= 1)
		} else {
			vfAssert("untouched-subscription-exactly-once", count(first, id) == 1)
		}
	}
	vfAssert("added-during-at-most-once", count(first, n) <= 1)
	last := -1
	inOrder := true
	for _, e := range first {
		vfAssert("value", e.val == v1)
		if e.id < n && !removedDuring[e.id] {
			if e.id < last {
				inOrder = false
			}
			last = e.id
		}
	}
	vfAssert("subscription-order", inOrder)
	// second publish: exactly the subscriptions still registered, once each, in order
	log = nil
	if !vfNoPanic("nopanic-publish2", func() { p.Publish(v2) }) {
		return
	}
	second := log
	expect := []int{}
	for id := 0; id < n; id++ {
		if !removedDuring[id] {
			expect = append(expect, id)
		}
	}
	if added {
		expect = append(expect, n)
	}
	// callbacks that had not acted yet may act now: only those that already acted are stable, so restrict the
	// second round to runs in which every callback acted during the first one
	allActed := true
	for id := 0; id < n; id++ {
		if !removedDuring[id] && !acted[id] {
			allActed = false
		}
	}
	if allActed {
		vfAssert("second-publish-count", len(second) == len(expect))
		for i := range expect {
			if i < len(second) {
				vfAssert("second-publish-order", second[i].id == expect[i])
				vfAssert("second-publish-value", second[i].val == v2)
			}
		}
	}
	vfReach("end")
}

func vh_C10_UnsubscribeBefore() {
	p := PublisherNewGenerics[int]()
	n := vfRange("n", 1, 3)
	calls := make([]int, n)
	subs := make([]*Subscription[int], n)
	for i := 0; i < n; i++ {
		id := i
		subs[i] = p.Subscribe(Subscription[int]{OnNext: func(v int) { calls[id]++ }})
	}
	k := vfChoose("unsubscribe", n)
	dup := vfChoose("subscribed-twice", 2) == 1
	if dup {
		// the same Subscription value registered again yields a second, independent subscription object
		p.Subscribe(*subs[k])
	}
	vfNoPanic("nopanic", func() {
		p.Unsubscribe(subs[k])
		p.Unsubscribe(subs[k]) // idempotent
		p.Publish(vfInt("v"))
	})
	for i := 0; i < n; i++ {
		if i == k {
			if dup {
				vfAssert("copy-still-subscribed", calls[i] == 1)
			} else {
				vfAssert("unsubscribed-gets-nothing", calls[i] == 0)
			}
		} else {
			vfAssert("others-exactly-once", calls[i] == 1)
		}
	}
	vfReach("end")
}

func vh_C10_Map() {
	p := PublisherNewGenerics[int]()
	q := p.Map(func(v int) int { return vfFn("F", v) })
	r := q.Map(func(v int) int { return vfFn("G", v) })
	var gotQ, gotR, gotP []int
	p.Subscribe(Subscription[int]{OnNext: func(v int) { gotP = append(gotP, v) }})
	q.Subscribe(Subscription[int]{OnNext: func(v int) { gotQ = append(gotQ, v) }})
	r.Subscribe(Subscription[int]{OnNext: func(v int) { gotR = append(gotR, v) }})
	n := vfRange("n", 1, 2)
	var vs []int
	vfNoPanic("nopanic", func() {
		for i := 0; i < n; i++ {
			v := vfInt("v")
			vs = append(vs, v)
			p.Publish(v)
		}
	})
	vfAssert("origin-count", len(gotP) == n)
	vfAssert("mapped-count", len(gotQ) == n)
	vfAssert("mapped-twice-count", len(gotR) == n)
	for i := 0; i < n; i++ {
		if i < len(gotQ) {
			vfAssert("mapped-value", gotQ[i] == vfFn("F", vs[i]))
		}
		if i < len(gotR) {
			vfAssert("mapped-twice-value", gotR[i] == vfFn("G", vfFn("F", vs[i])))
		}
	}
	vfReach("end")
}

// a mapped publisher keeps publishing fn(v) for every v of its origin through any subscription history of its own:
// subscriptions come and go (also down to none, also from inside a callback) before the origin publishes
func vh_C10_MapResubscribe() {
	p := PublisherNewGenerics[int]()
	m := p.Map(func(v int) int { return vfFn("F", v) })
	var got []int
	var first *Subscription[int]
	selfRemove := vfChoose("first-removes-itself-in-callback", 2) == 1
	first = m.Subscribe(Subscription[int]{OnNext: func(v int) {
		if selfRemove {
			m.Unsubscribe(first)
		}
	}})
	vfNoPanic("nopanic", func() {
		if selfRemove {
			p.Publish(vfInt("v0")) // the only subscriber of m removes itself while being served
		} else {
			m.Unsubscribe(first)
		}
		if vfChoose("second-churn", 2) == 1 {
			tmp := m.Subscribe(Subscription[int]{OnNext: func(v int) {}})
			m.Unsubscribe(tmp)
		}
		m.Subscribe(Subscription[int]{OnNext: func(v int) { got = append(got, v) }})
	})
	v := vfInt("v")
	vfNoPanic("nopanic-publish2", func() { p.Publish(v) })
	vfAssert("mapped-count", len(got) == 1)
	if len(got) == 1 {
		vfAssert("mapped-value", got[0] == vfFn("F", v))
	}
	vfReach("end")
}

func vh_C10_SubscribeOn() {
	h := Handler.New()
	hid := -1
	h.Post(func() { hid = vfGoroutineID() })
	p := PublisherNewGenerics[int]().SubscribeOn(h)
	n := vfRange("n", 1, 2)
	calls := make([]int, n)
	where := make([]int, n)
	subs := make([]*Subscription[int], n)
	for i := 0; i < n; i++ {
		id := i
		subs[i] = p.Subscribe(Subscription[int]{OnNext: func(v int) { calls[id]++; where[id] = vfGoroutineID() }})
	}
	v := vfInt("v")
	late := 0
	vfNoPanic("nopanic", func() {
		p.Publish(v)
		if vfChoose("churn-after-publish-returned", 2) == 1 {
			// registered for the whole call: must still get v once; registered only afterwards: must not get it
			p.Unsubscribe(subs[0])
			p.Subscribe(Subscription[int]{OnNext: func(v int) { late++ }})
		}
	})
	vfQuiesce()
	vfAssert("lemma/added-after-publish-gets-nothing", late == 0)
	for i := 0; i < n; i++ {
		vfAssert("exactly-once-on-handler", calls[i] == 1)
		vfAssert("runs-on-the-handler-goroutine", where[i] == hid)
	}
	vfAssert("not-on-callers-goroutine", hid != vfGoroutineID())
	vfReach("end")
}

// concurrent: a publisher and an (un)subscriber race; subscriptions A and C are never touched
func vh_C10_Concurrent() {
	vfMemPoints(true)
	p := PublisherNewGenerics[int]()
	var mu sync.Mutex
	calls := make([]int, 4)
	mk := func(id int) Subscription[int] {
		return Subscription[int]{OnNext: func(v int) { mu.Lock(); calls[id]++; mu.Unlock() }}
	}
	p.Subscribe(mk(0))
	b := p.Subscribe(mk(1))
	p.Subscribe(mk(2))
	mode := vfChoose("mode", 3)
	var wg sync.WaitGroup
	wg.Add(2)
	go func() { p.Publish(7); wg.Done() }()
	go func() {
		switch mode {
		case 0:
			p.Unsubscribe(b)
		case 1:
			p.Subscribe(mk(3))
		default:
			p.Unsubscribe(b)
			p.Subscribe(mk(3))
		}
		wg.Done()
	}()
	wg.Wait()
	vfMemPoints(false)
	vfAssert("A-exactly-once", calls[0] == 1)
	vfAssert("C-exactly-once", calls[2] == 1)
	vfAssert("B-at-most-once", calls[1] <= 1)
	vfAssert("D-at-most-once", calls[3] <= 1)
	if mode == 1 {
		vfAssert("B-untouched-exactly-once", calls[1] == 1)
	}
	vfReach("end")
}

// concurrent registry updates: two goroutines change the subscriber list at the same time (Unsubscribe || Unsubscribe,
// Unsubscribe || Subscribe, Subscribe || Subscribe); a Publish that begins after both returned reaches exactly the
// subscriptions registered then - none resurrected, none dropped - once each
func vh_C10_ConcurrentRegistry() {
	p := PublisherNewGenerics[int]()
	var mu sync.Mutex
	calls := make([]int, 5)
	mk := func(id int) Subscription[int] {
		return Subscription[int]{OnNext: func(v int) { mu.Lock(); calls[id]++; mu.Unlock() }}
	}
	p.Subscribe(mk(0))
	b := p.Subscribe(mk(1))
	c := p.Subscribe(mk(2))
	mode := vfChoose("mode", 3)
	var wg sync.WaitGroup
	wg.Add(2)
	go func() {
		if mode == 2 {
			p.Subscribe(mk(3))
		} else {
			p.Unsubscribe(b)
		}
		wg.Done()
	}()
	go func() {
		if mode == 0 {
			p.Unsubscribe(c)
		} else {
			p.Subscribe(mk(4))
		}
		wg.Done()
	}()
	wg.Wait()
	p.Publish(7)
	want := [][]int{{1, 0, 0, 0, 0}, {1, 0, 1, 0, 1}, {1, 1, 1, 1, 1}}[mode]
	for id := range calls {
		if want[id] == 1 {
			vfAssert("registered-exactly-once", calls[id] == 1)
		} else {
			vfAssert("unsubscribed-never-called", calls[id] == 0)
		}
	}
	vfReach("end")
}

// the util-instance constructor Publisher.New() (an interface{} publisher) obeys the same delivery clauses
func vh_C10_UtilInstance() {
	p := Publisher.New()
	var order []int
	var got []interface{}
	n := vfRange("n", 1, 3)
	for i := 0; i < n; i++ {
		id := i
		p.Subscribe(Subscription[interface{}]{OnNext: func(v interface{}) { order = append(order, id); got = append(got, v) }})
	}
	x := vfInt("x")
	vfNoPanic("nopanic", func() { p.Publish(x) })
	vfAssert("A-exactly-once", len(order) == n)
	for i := 0; i < len(order) && i < n; i++ {
		vfAssert("subscription-order", order[i] == i)
		vfAssert("value", got[i] == interface{}(x))
	}
	vfReach("end")
}

// a subscription without a callback, registered anywhere in the list, neither receives anything nor keeps the others
// (or a publisher mapped afterwards) from being served exactly once, in order
func vh_C10_SilentSubscription() {
	p := PublisherNewGenerics[int]()
	n := vfRange("n", 1, 3)
	silentAt := vfRange("silent-at", 0, n)
	var order []int
	var mapped []int
	withMap := false
	for i := 0; i <= n; i++ {
		if i == silentAt {
			p.Subscribe(Subscription[int]{})
			if vfChoose("map-after-silent", 2) == 1 {
				withMap = true
				p.Map(func(v int) int { return vfFn("F", v) }).Subscribe(Subscription[int]{OnNext: func(v int) { mapped = append(mapped, v) }})
			}
		}
		if i < n {
			id := i
			p.Subscribe(Subscription[int]{OnNext: func(v int) { order = append(order, id) }})
		}
	}
	v := vfInt("v")
	vfNoPanic("nopanic", func() { p.Publish(v) })
	vfAssert("others-exactly-once", len(order) == n)
	for i := 0; i < len(order) && i < n; i++ {
		vfAssert("subscription-order", order[i] == i)
	}
	if withMap {
		vfAssert("mapped-count", len(mapped) == 1)
		if len(mapped) == 1 {
			vfAssert("mapped-value", mapped[0] == vfFn("F", v))
		}
	}
	vfReach("end")
}
