package fpgo

import "sync"

// vf:instrument

// C08: ConcurrentQueue / ConcurrentStack over a non-thread-safe LinkedListQueue are linearizable: the recorded
// history (invocation/response order) has a sequential witness against a FIFO (LIFO) specification.
// Bounds: prefill 0..2 items, 2 goroutines with 2 + 1 operations (thorough: 3 goroutines x <= 2), symbolic operation mix,
// every schedule with <= 1 preemption (thorough 2) at statement granularity inside the wrapped structure.

type c08Op struct {
	offer    bool
	val      int
	ok       bool // removal: a value was returned (not the empty error)
	rejected bool // insertion refused with ErrQueueIsFull (bounded wrapped queues only)
	inv, ret int
}

type c08Rec struct {
	mu      sync.Mutex
	clock   int
	ops     []c08Op
	payload map[int]int
}

// A stored value is a concrete identity tag (the linearizability search runs on tags) plus an arbitrary symbolic
// payload that has to come back unchanged, for all its values, from whichever removal returns the tag.
type c08Item struct{ Tag, Payload int }

// item is only called while no worker goroutine is running (before they start / after they finished)
func (r *c08Rec) item(tag int) c08Item {
	if r.payload == nil {
		r.payload = map[int]int{}
	}
	p, ok := r.payload[tag]
	if !ok {
		p = vfInt("payload")
		r.payload[tag] = p
	}
	return c08Item{Tag: tag, Payload: p}
}

// removed records what a removal returned: its tag for the history, its payload checked on the spot
func (r *c08Rec) removed(it c08Item, err error) int {
	if err == nil {
		want, known := r.payload[it.Tag] // read-only while workers run
		vfAssert("payload-intact", vfImplies(known, it.Payload == want))
	}
	return it.Tag
}

func (r *c08Rec) begin() int {
	r.mu.Lock()
	r.clock++
	t := r.clock
	r.mu.Unlock()
	return t
}

func (r *c08Rec) end(op c08Op) {
	r.mu.Lock()
	r.clock++
	op.ret = r.clock
	r.ops = append(r.ops, op)
	r.mu.Unlock()
}

// c08Linearizable: brute-force search for a sequential witness; lifo selects the stack specification.
func c08Linearizable(ops []c08Op, state []int, lifo bool) bool {
	return c08LinearizableCap(ops, state, lifo, 0)
}

// capacity > 0: the specification is a bounded FIFO - an insertion is refused exactly when it is full
func c08LinearizableCap(ops []c08Op, state []int, lifo bool, capacity int) bool {
	if len(ops) == 0 {
		return true
	}
	for i, op := range ops {
		// op may come next only if no other pending operation returned before op was invoked
		first := true
		for j, o := range ops {
			if j != i && o.ret < op.inv {
				first = false
			}
		}
		if !first {
			continue
		}
		var next []int
		legal := true
		switch {
		case op.offer && op.rejected:
			legal = capacity > 0 && len(state) == capacity
			next = state
		case op.offer:
			legal = capacity == 0 || len(state) < capacity
			next = append(append([]int{}, state...), op.val)
		case !op.ok:
			legal = len(state) == 0
			next = state
		case len(state) == 0:
			legal = false
		case lifo:
			legal = state[len(state)-1] == op.val
			next = state[:len(state)-1]
		default:
			legal = state[0] == op.val
			next = state[1:]
		}
		if !legal {
			continue
		}
		rest := append(append([]c08Op{}, ops[:i]...), ops[i+1:]...)
		if c08LinearizableCap(rest, next, lifo, capacity) {
			return true
		}
	}
	return false
}

func c08Run(lifo bool) { c08RunCfg(lifo, false) }

// deep: two goroutines with one operation each, prefill 0..1, but every schedule with <= 2 preemptions
func c08RunCfg(lifo bool, deep bool) {
	if deep {
		vfSetDelayBound(2)
	}
	rec := &c08Rec{}
	base := NewLinkedListQueue[c08Item]()
	q := NewConcurrentQueue[c08Item](base)
	st := NewConcurrentStack[c08Item](base)
	maxPrefill := 2
	if deep {
		maxPrefill = 1
	}
	prefill := vfRange("prefill", 0, maxPrefill)
	var initial []int
	for i := 0; i < prefill; i++ {
		base.Offer(rec.item(100 + i))
		initial = append(initial, 100+i)
	}
	workers := 2 + vfTier()
	if deep {
		workers = 2
	}
	var wg sync.WaitGroup
	nextVal := 1
	for w := 0; w < workers; w++ {
		nops := 1
		if !deep && (w == 0 || vfTier() > 0) {
			nops = vfRange("nops", 1, 2)
		}
		kinds := make([]int, nops)
		vals := make([]int, nops)
		items := make([]c08Item, nops)
		for i := range kinds {
			kinds[i] = vfChoose("op", 3)
			vals[i] = nextVal
			items[i] = rec.item(nextVal)
			nextVal++
		}
		wg.Add(1)
		go func() {
			for i, k := range kinds {
				t := rec.begin()
				switch {
				case k == 0 && lifo:
					st.Push(items[i])
					rec.end(c08Op{offer: true, val: vals[i], inv: t})
				case k == 0:
					if i%2 == 0 {
						q.Offer(items[i])
					} else {
						q.Put(items[i])
					}
					rec.end(c08Op{offer: true, val: vals[i], inv: t})
				case lifo:
					v, err := st.Pop()
					rec.end(c08Op{val: rec.removed(v, err), ok: err == nil, inv: t})
				case k == 1:
					v, err := q.Poll()
					rec.end(c08Op{val: rec.removed(v, err), ok: err == nil, inv: t})
				default:
					v, err := q.Take()
					rec.end(c08Op{val: rec.removed(v, err), ok: err == nil, inv: t})
				}
			}
			wg.Done()
		}()
	}
	wg.Wait()
	// drain sequentially: everything offered and not yet removed comes out exactly once
	for i := 0; i < 8; i++ {
		t := rec.begin()
		var v c08Item
		var err error
		if lifo {
			v, err = st.Pop()
		} else {
			v, err = q.Poll()
		}
		rec.end(c08Op{val: rec.removed(v, err), ok: err == nil, inv: t})
		if err != nil {
			break
		}
	}
	vfAssert("linearizable", c08Linearizable(rec.ops, initial, lifo))
	vfAssert("wrapped-structure-consistent", base.Count() == 0)
	// the wrapped structure must come out of the concurrent phase intact: probe both ends of it directly
	vfNoPanic("wrapped-structure-intact-nopanic", func() {
		base.Offer(rec.item(777))
		v, err := base.Pop()
		vfAssert("wrapped-structure-intact", err == nil && rec.removed(v, err) == 777)
		_, e1 := base.Shift()
		_, e2 := base.Pop()
		vfAssert("wrapped-structure-intact", e1 == ErrQueueIsEmpty && e2 == ErrStackIsEmpty)
		base.Unshift(rec.item(778))
		v2, err2 := base.Shift()
		vfAssert("wrapped-structure-intact", err2 == nil && rec.removed(v2, err2) == 778 && base.Count() == 0)
	})
	vfReach("end")
}

func vh_C08_Queue() {
	if !vfNoPanic("nopanic", func() { c08Run(false) }) {
		return
	}
}

func vh_C08_QueueDeep() {
	if !vfNoPanic("nopanic", func() { c08RunCfg(false, true) }) {
		return
	}
}

func vh_C08_StackDeep() {
	if !vfNoPanic("nopanic", func() { c08RunCfg(true, true) }) {
		return
	}
}

func vh_C08_Stack() {
	if !vfNoPanic("nopanic", func() { c08Run(true) }) {
		return
	}
}

// c08Ring: a BOUNDED, non-thread-safe Queue (two slots): Offer and Put refuse with ErrQueueIsFull when it is full, Poll
// and Take report ErrQueueIsEmpty when it is empty. "Over any wrapped queue": ConcurrentQueue must serialise these too.
type c08Ring struct {
	buf     [2]c08Item
	head, n int
}

func (r *c08Ring) Offer(v c08Item) error {
	if r.n == len(r.buf) {
		return ErrQueueIsFull
	}
	slot := (r.head + r.n) % len(r.buf)
	r.buf[slot] = v
	r.n = r.n + 1
	return nil
}
func (r *c08Ring) Put(v c08Item) error { return r.Offer(v) }
func (r *c08Ring) Poll() (c08Item, error) {
	if r.n == 0 {
		return c08Item{}, ErrQueueIsEmpty
	}
	v := r.buf[r.head]
	r.head = (r.head + 1) % len(r.buf)
	r.n = r.n - 1
	return v, nil
}
func (r *c08Ring) Take() (c08Item, error) { return r.Poll() }

// ConcurrentQueue over the bounded ring: prefill 1..2 of its 2 slots, one goroutine inserting (Put or Offer), one
// removing and then inserting; every schedule with <= 2 scheduling deviations; the history - including refused
// insertions - must have a sequential witness against a bounded FIFO.
func vh_C08_BoundedWrapped() {
	vfSetDelayBound(2)
	rec := &c08Rec{}
	ring := &c08Ring{}
	q := NewConcurrentQueue[c08Item](ring)
	prefill := vfRange("prefill", 1, 2)
	var initial []int
	for i := 0; i < prefill; i++ {
		ring.Offer(rec.item(100 + i))
		initial = append(initial, 100+i)
	}
	insert := func(usePut bool, tag int, it c08Item) {
		t := rec.begin()
		var err error
		if usePut {
			err = q.Put(it)
		} else {
			err = q.Offer(it)
		}
		vfAssert("insert-error-kind", err == nil || err == ErrQueueIsFull)
		rec.end(c08Op{offer: true, val: tag, rejected: err != nil, inv: t})
	}
	remove := func(useTake bool) {
		t := rec.begin()
		var v c08Item
		var err error
		if useTake {
			v, err = q.Take()
		} else {
			v, err = q.Poll()
		}
		rec.end(c08Op{val: rec.removed(v, err), ok: err == nil, inv: t})
	}
	aPut, bPut, bTake := vfChoose("a-put", 2) == 1, vfChoose("b-put", 2) == 1, vfChoose("b-take", 2) == 1
	i1, i2 := rec.item(1), rec.item(2)
	ok := vfNoPanic("nopanic", func() {
		var wg sync.WaitGroup
		wg.Add(2)
		go func() { insert(aPut, 1, i1); wg.Done() }()
		go func() { remove(bTake); insert(bPut, 2, i2); wg.Done() }()
		wg.Wait()
		for i := 0; i < 4; i++ {
			t := rec.begin()
			v, err := q.Poll()
			rec.end(c08Op{val: rec.removed(v, err), ok: err == nil, inv: t})
			if err != nil {
				break
			}
		}
	})
	if !ok {
		return
	}
	vfAssert("linearizable", c08LinearizableCap(rec.ops, initial, false, 2))
	vfAssert("wrapped-structure-consistent", ring.n == 0)
	vfReach("end")
}
