package fpgo

import (
	"sync"
	"time"
)

// vf:instrument

// C15: closing a Handler, Actor, BufferedChannelQueue (WorkerPool: see harness/worker) or the completion of a coroutine
// may happen at ANY moment relative to a concurrent user call: no goroutine panics, nothing deadlocks, and calls that begin
// after the close returned report it or are dropped. One harness per (object, operation): 1 closer || 1 user, the closer
// placed at every statement boundary of the user's call (<= 1 preemption; thorough 2), plus the objects' own goroutines.

// c15Race runs user and closer concurrently and waits for both.
func c15Race(user, closer func()) {
	var wg sync.WaitGroup
	wg.Add(2)
	go func() { user(); wg.Done() }()
	go func() { closer(); wg.Done() }()
	wg.Wait()
	vfQuiesce()
}

func vh_C15_Handler_Post() {
	h := Handler.New()
	if c := vfRange("mailbox-capacity", 0, 2); c > 0 {
		h = Handler.NewByCh(make(chan func(), c)) // the less prominent constructor: a buffered mailbox
	}
	ran := 0
	c15Race(func() { h.Post(func() { ran++ }) }, func() { h.Close() })
	vfAssert("ran-at-most-once", ran <= 1)
	after := false
	h.Post(func() { after = true })
	vfQuiesce()
	vfAssert("post-after-close-dropped", !after)
	vfReach("end")
}

func vh_C15_Actor_Send() {
	got := 0
	effect := func(self *ActorDef[int], m int) { got++ }
	a := ActorNewGenerics(effect)
	if c := vfRange("mailbox-capacity", 0, 2); c > 0 {
		a = ActorNewByOptionsGenerics(effect, make(chan int, c), map[string]interface{}{}) // buffered mailbox
	}
	c15Race(func() { a.Send(vfInt("msg")) }, func() { a.Close() })
	vfAssert("processed-at-most-once", got <= 1)
	before := got
	a.Send(vfInt("msg"))
	vfQuiesce()
	vfAssert("send-after-close-dropped", got == before)
	vfAssert("isclosed", a.IsClosed())
	vfReach("end")
}

func c15Queue() *BufferedChannelQueue[int] {
	bufMax := vfInt("bufmax") // symbolic: any non-negative buffer maximum (the code only compares it with the backlog)
	vfAssume(bufMax >= 0)
	q := NewBufferedChannelQueue[int](1, bufMax, 1)
	if vfChoose("prefilled", 2) == 1 {
		q.Offer(vfInt("item"))
	}
	return q
}

func vh_C15_Queue_Offer() {
	q := c15Queue()
	var err error
	c15Race(func() { err = q.Offer(vfInt("item")) }, func() { q.Close() })
	vfAssert("error-kind", err == nil || err == ErrQueueIsClosed || err == ErrQueueIsFull)
	vfAssert("offer-after-close-reports-closed", q.Offer(vfInt("item")) == ErrQueueIsClosed)
	vfAssert("put-after-close-reports-closed", q.Put(vfInt("item")) == ErrQueueIsClosed)
	vfAssert("isclosed", q.IsClosed())
	vfReach("end")
}

func vh_C15_Queue_Take() {
	q := c15Queue()
	var err error
	c15Race(func() { _, err = q.Take() }, func() { q.Close() })
	vfAssert("error-kind", err == nil || err == ErrQueueIsClosed)
	_, err2 := q.Take()
	vfAssert("take-after-close-reports-closed", err2 == ErrQueueIsClosed)
	vfReach("end")
}

func vh_C15_Queue_TakeWithTimeout() {
	q := c15Queue()
	var err error
	c15Race(func() { _, err = q.TakeWithTimeout(150 * time.Millisecond) }, func() { q.Close() })
	vfAssert("error-kind", err == nil || err == ErrQueueIsClosed || err == ErrQueueTakeTimeout)
	_, err2 := q.TakeWithTimeout(150 * time.Millisecond)
	vfAssert("take-after-close-reports-closed", err2 == ErrQueueIsClosed)
	vfReach("end")
}

func vh_C15_Queue_Poll() {
	q := c15Queue()
	var err error
	c15Race(func() { _, err = q.Poll() }, func() { q.Close() })
	vfAssert("error-kind", err == nil || err == ErrQueueIsClosed || err == ErrQueueIsEmpty)
	_, err2 := q.Poll()
	vfAssert("poll-after-close-reports-closed", err2 == ErrQueueIsClosed)
	vfReach("end")
}

func vh_C15_Queue_Count() {
	q := c15Queue()
	n := -1
	c15Race(func() { n = q.Count() }, func() { q.Close() })
	vfAssert("lemma/count-sane", n >= 0 && n <= 1)
	vfAssert("lemma/count-after-close", q.Count() == 0)
	vfReach("end")
}

func vh_C15_Queue_GetChannel() {
	q := c15Queue()
	c15Race(func() {
		select {
		case <-q.GetChannel():
		case <-time.After(150 * time.Millisecond):
		}
	}, func() { q.Close() })
	// after the close the channel is closed: receiving from it never blocks
	ok := true
	vfNoPanic("getchannel-after-close-no-panic", func() {
		select {
		case _, ok = <-q.GetChannel():
		case <-time.After(150 * time.Millisecond):
		}
	})
	_ = ok
	vfReach("end")
}

// the loader / free-node goroutines race with Close as well: items are buffered so that they have work to do
func vh_C15_Queue_LoaderVsClose() {
	q := NewBufferedChannelQueue[int](1, 2, 0)
	q.Offer(vfInt("item"))
	q.Offer(vfInt("item")) // buffered: wakes the loader
	q.Offer(vfInt("item"))
	c15Race(func() { q.Poll() }, func() { q.Close() })
	vfReach("end")
}

func vh_C15_Cor_YieldFrom() {
	yielded, request := vfInt("yielded"), vfInt("request")
	var target, caller *CorDef[int]
	got := -1
	served := vfChoose("target-serves", 2) == 1
	target = CorNewGenerics[int](func() {
		if served {
			target.YieldRef(yielded)
		}
		// returning closes the coroutine, possibly while the caller is inside YieldFrom
	})
	caller = CorNewGenerics[int](func() { got = caller.YieldFrom(target, request) })
	target.Start()
	caller.Start()
	vfQuiesce()
	vfAssert("target-done", target.IsDone())
	// whether or not its request was served, the caller is not left blocked on a finished target
	vfAssert("caller-released-when-target-completes", caller.IsDone())
	if served {
		vfAssert("served-request-got-its-answer", vfOr(got == yielded, got == 0))
	}
	// a request that begins after the target finished returns without blocking
	done := false
	late := CorNewGenerics[int](func() {})
	late.Start()
	vfQuiesce()
	var c2 *CorDef[int]
	c2 = CorNewGenerics[int](func() { c2.YieldFrom(late, 1); done = true })
	c2.Start()
	vfQuiesce()
	vfAssert("yieldfrom-finished-target-returns", done)
	_ = got
	vfReach("end")
}

// one request racing with the target's completion: the target returns (its gate opens) at any moment relative to a
// YieldFrom that is just being made - nobody panics, the caller is released, the target is done
func vh_C15_Cor_RequestVsCompletion() {
	gate := make(chan struct{})
	var target, caller *CorDef[int]
	target = CorNewGenerics[int](func() { <-gate }) // serves nobody
	caller = CorNewGenerics[int](func() {})
	target.Start()
	vfQuiesce()
	returned := false
	c15Race(func() { caller.YieldFrom(target, vfInt("request")); returned = true }, func() { close(gate) })
	vfAssert("target-done", target.IsDone())
	vfAssert("caller-released-when-target-completes", returned)
	vfReach("end")
}

// a coroutine that completes while SEVERAL YieldFrom requests are queued on it releases every one of those callers
func vh_C15_Cor_ManyPendingAtCompletion() {
	callers := vfRange("callers", 2, 4)
	gate := make(chan struct{})
	var target *CorDef[int]
	target = CorNewGenerics[int](func() { <-gate }) // serves nobody
	cs := make([]*CorDef[int], callers)
	returned := make([]bool, callers)
	for i := range cs {
		i := i
		cs[i] = CorNewGenerics[int](func() { cs[i].YieldFrom(target, vfInt("request")); returned[i] = true })
	}
	target.Start()
	for _, c := range cs {
		c.Start()
	}
	vfQuiesce() // every request is queued on the target
	close(gate) // the target returns with all of them pending
	vfQuiesce()
	vfAssert("target-done", target.IsDone())
	all := true
	for i := range cs {
		all = all && returned[i] && cs[i].IsDone()
	}
	vfAssert("caller-released-when-target-completes", all)
	vfReach("end")
}

// ... also when MORE requests are pending than the target's request buffer holds (5): the callers whose request is still
// waiting for room are released as well, and the target's completion itself does not hang
func vh_C15_Cor_MorePendingThanBuffered() {
	vfSetDelayBound(1) // 8..10 goroutines: one scheduling deviation anywhere (the thorough tier's larger bound is for the two-party races)
	callers := vfRange("callers", 6, 7+vfTier())
	gate := make(chan struct{})
	var target *CorDef[int]
	finished := false
	target = CorNewGenerics[int](func() { <-gate }) // serves nobody
	cs := make([]*CorDef[int], callers)
	returned := make([]bool, callers)
	for i := range cs {
		i := i
		cs[i] = CorNewGenerics[int](func() { cs[i].YieldFrom(target, vfInt("request")); returned[i] = true })
	}
	target.Start()
	for _, c := range cs {
		c.Start()
	}
	vfQuiesce() // five requests are queued on the target, the others wait for room
	close(gate) // the target returns with all of them pending
	vfQuiesce()
	finished = target.IsDone()
	vfAssert("target-done", finished)
	all := true
	for i := range cs {
		all = all && returned[i] && cs[i].IsDone()
	}
	vfAssert("caller-released-when-target-completes", all)
	// a request that begins after the completion returns at once
	done := false
	var late *CorDef[int]
	late = CorNewGenerics[int](func() { late.YieldFrom(target, 1); done = true })
	late.Start()
	vfQuiesce()
	vfAssert("yieldfrom-finished-target-returns", done)
	vfReach("end")
}

// a queue closed with items still waiting in it: every call that begins after Close returned reports the close - the
// leftovers are not handed out by Take / TakeWithTimeout / Poll afterwards
func vh_C15_Queue_ClosedWithBacklog() {
	q := NewBufferedChannelQueue[int](2, 1, 1)
	backlog := vfRange("backlog", 0, 3)
	for i := 0; i < backlog; i++ {
		q.Offer(vfInt("item"))
	}
	vfQuiesce()
	q.Close()
	switch vfChoose("call", 3) {
	case 0:
		_, err := q.Take()
		vfAssert("take-after-close-reports-closed", err == ErrQueueIsClosed)
	case 1:
		_, err := q.TakeWithTimeout(100 * time.Millisecond)
		vfAssert("take-after-close-reports-closed", err == ErrQueueIsClosed)
	default:
		_, err := q.Poll()
		vfAssert("poll-after-close-reports-closed", err == ErrQueueIsClosed)
	}
	vfAssert("offer-after-close-reports-closed", q.Offer(vfInt("item")) == ErrQueueIsClosed)
	vfReach("end")
}
