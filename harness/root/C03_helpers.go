package fpgo

// C03: every slice/map helper equals its documented definition, leaves its inputs alone, never panics.
// Bounds: list length 0..3 (thorough 0..4), spare capacity 0..1 (thorough 0..2), counts in [-3, len+3],
// predicates/transformers/reducers are uninterpreted functions (all functions at once).

func c03MaxLen() int { return 3 + vfTier() }
func c03Spare() int  { return 1 + vfTier() }

func c03P(v int) bool          { return vfPred("P", v) }
func c03PI(v int, i int) bool  { return vfPred("PI", v, i) }
func c03F(v int) int           { return vfFn("F", v) }
func c03FI(v int, i int) int   { return vfFn("FI", v, i) }
func c03R(memo int, v int) int { return vfFn("R", memo, v) }

// ---------- Map / MapIndexed / Reduce / ReduceIndexed ----------

func vh_C03_Map() {
	l := vfIntList("l", c03MaxLen(), c03Spare())
	snap := vfSnapshot(l)
	var out []int
	if !vfNoPanic("nopanic", func() { out = Map(c03F, l...) }) {
		return
	}
	vfAssert("len", len(out) == len(l))
	for i := range l {
		if i < len(out) {
			vfAssert("elem", out[i] == c03F(l[i]))
		}
	}
	vfAssert("fresh", !vfSameStorage(out, l))
	vfUnchanged("input-unmodified", snap)
	vfReach("end")
}

func vh_C03_MapIndexed() {
	l := vfIntList("l", c03MaxLen(), c03Spare())
	snap := vfSnapshot(l)
	var out []int
	if !vfNoPanic("nopanic", func() { out = MapIndexed(c03FI, l...) }) {
		return
	}
	vfAssert("len", len(out) == len(l))
	for i := range l {
		if i < len(out) {
			vfAssert("elem", out[i] == c03FI(l[i], i))
		}
	}
	vfUnchanged("input-unmodified", snap)
	vfReach("end")
}

func vh_C03_Reduce() {
	l := vfIntList("l", c03MaxLen(), 0)
	memo := vfInt("memo")
	snap := vfSnapshot(l)
	var out int
	if !vfNoPanic("nopanic", func() { out = Reduce(c03R, memo, l...) }) {
		return
	}
	want := memo
	for _, v := range l {
		want = c03R(want, v)
	}
	vfAssert("value", out == want)
	vfUnchanged("input-unmodified", snap)
	vfReach("end")
}

func vh_C03_ReduceIndexed() {
	l := vfIntList("l", c03MaxLen(), 0)
	memo := vfInt("memo")
	var out int
	if !vfNoPanic("nopanic", func() {
		out = ReduceIndexed(func(m int, v int, i int) int { return vfFn("RI", m, v, i) }, memo, l...)
	}) {
		return
	}
	want := memo
	for i, v := range l {
		want = vfFn("RI", want, v, i)
	}
	vfAssert("value", out == want)
	vfReach("end")
}

// ---------- Filter / Reject / Partition / DropWhile ----------

func vh_C03_Filter() {
	l := vfIntList("l", c03MaxLen(), c03Spare())
	snap := vfSnapshot(l)
	var out []int
	if !vfNoPanic("nopanic", func() { out = Filter(c03PI, l...) }) {
		return
	}
	vfAssert("eq", vfSliceEq(out, ref03Filter(c03PI, l)))
	vfAssert("fresh", !vfSameStorage(out, l))
	vfUnchanged("input-unmodified", snap)
	vfReach("end")
}

func vh_C03_Reject() {
	l := vfIntList("l", c03MaxLen(), c03Spare())
	snap := vfSnapshot(l)
	var out []int
	if !vfNoPanic("nopanic", func() { out = Reject(c03PI, l...) }) {
		return
	}
	vfAssert("eq", vfSliceEq(out, ref03Filter(func(v, i int) bool { return !c03PI(v, i) }, l)))
	vfUnchanged("input-unmodified", snap)
	vfReach("end")
}

func vh_C03_Partition() {
	l := vfIntList("l", c03MaxLen(), c03Spare())
	snap := vfSnapshot(l)
	var out [][]int
	if !vfNoPanic("nopanic", func() { out = Partition(c03P, l...) }) {
		return
	}
	vfAssert("two-groups", len(out) == 2)
	if len(out) == 2 {
		vfAssert("true-group", vfSliceEq(out[0], ref03Filter(func(v, i int) bool { return c03P(v) }, l)))
		vfAssert("false-group", vfSliceEq(out[1], ref03Filter(func(v, i int) bool { return !c03P(v) }, l)))
	}
	vfUnchanged("input-unmodified", snap)
	vfReach("end")
}

func vh_C03_DropWhile() {
	l := vfIntList("l", c03MaxLen(), c03Spare())
	snap := vfSnapshot(l)
	var out []int
	if !vfNoPanic("nopanic", func() { out = DropWhile(c03P, l...) }) {
		return
	}
	i := 0
	for i < len(l) && c03P(l[i]) {
		i++
	}
	vfAssert("eq", vfSliceEq(out, l[i:]))
	vfAssert("fresh", vfOr(len(out) == 0, !vfSameStorage(out, l)))
	vfUnchanged("input-unmodified", snap)
	// nil predicate: documented to give an empty list
	var out2 []int
	vfNoPanic("nopanic-nil-pred", func() { out2 = DropWhile[int](nil, l...) })
	vfAssert("nil-pred-empty", len(out2) == 0)
	vfReach("end")
}

// ---------- Concat / Flatten / Prepend / Reverse ----------

func vh_C03_Concat() {
	a := vfIntList("a", 2+vfTier(), c03Spare())
	b := vfIntList("b", 2, 0)
	c := vfIntList("c", 2, 0)
	snap := vfSnapshot(a, b, c)
	var out []int
	if !vfNoPanic("nopanic", func() { out = Concat(a, b, c) }) {
		return
	}
	want := append(append(append([]int{}, a...), b...), c...)
	vfAssert("eq", vfSliceEq(out, want))
	vfAssert("fresh", vfAnd(!vfSameStorage(out, a), vfAnd(!vfSameStorage(out, b), !vfSameStorage(out, c))))
	vfUnchanged("input-unmodified", snap)
	var out1 []int
	vfNoPanic("nopanic-1", func() { out1 = Concat(a) })
	vfAssert("eq-1", vfSliceEq(out1, a))
	vfAssert("fresh-1", !vfSameStorage(out1, a))
	vfReach("end")
}

func vh_C03_Flatten() {
	a := vfIntList("a", 2, 0)
	b := vfIntList("b", 2, 0)
	snap := vfSnapshot(a, b)
	var out []int
	if !vfNoPanic("nopanic", func() { out = Flatten(a, b) }) {
		return
	}
	vfAssert("eq", vfSliceEq(out, append(append([]int{}, a...), b...)))
	vfUnchanged("input-unmodified", snap)
	var out0 []int
	vfNoPanic("nopanic-0", func() { out0 = Flatten[int]() })
	vfAssert("empty", len(out0) == 0)
	vfReach("end")
}

func vh_C03_Prepend() {
	l := vfIntList("l", c03MaxLen(), c03Spare())
	e := vfInt("e")
	snap := vfSnapshot(l)
	var out []int
	if !vfNoPanic("nopanic", func() { out = Prepend(e, l) }) {
		return
	}
	vfAssert("eq", vfSliceEq(out, append([]int{e}, l...)))
	vfAssert("fresh", !vfSameStorage(out, l))
	vfUnchanged("input-unmodified", snap)
	vfReach("end")
}

func vh_C03_Reverse() {
	l := vfIntList("l", c03MaxLen(), c03Spare())
	snap := vfSnapshot(l)
	var out []int
	if !vfNoPanic("nopanic", func() { out = Reverse(l...) }) {
		return
	}
	vfAssert("len", len(out) == len(l))
	for i := range l {
		if i < len(out) {
			vfAssert("elem", out[i] == l[len(l)-1-i])
		}
	}
	vfAssert("fresh", !vfSameStorage(out, l))
	vfUnchanged("input-unmodified", snap)
	vfReach("end")
}

// ---------- Distinct / Dedupe / DropEq / UniqBy ----------

func vh_C03_Distinct() {
	l := vfIntList("l", c03MaxLen(), c03Spare())
	snap := vfSnapshot(l)
	var out []int
	if !vfNoPanic("nopanic", func() { out = Distinct(l...) }) {
		return
	}
	vfAssert("eq", vfSliceEq(out, ref03Distinct(l)))
	vfAssert("fresh", !vfSameStorage(out, l))
	vfUnchanged("input-unmodified", snap)
	vfReach("end")
}

func vh_C03_DistinctRandom() {
	l := vfIntList("l", c03MaxLen(), 0)
	var out []int
	if !vfNoPanic("nopanic", func() { out = DistinctRandom(l...) }) {
		return
	}
	vfAssert("same-multiset", vfSameMultiset(out, ref03Distinct(l)))
	vfReach("end")
}

func vh_C03_Dedupe() {
	l := vfIntList("l", c03MaxLen(), c03Spare())
	snap := vfSnapshot(l)
	var out []int
	if !vfNoPanic("nopanic", func() { out = Dedupe(l...) }) {
		return
	}
	var want []int
	for i, v := range l {
		if i > 0 && l[i-1] == v {
			continue
		}
		want = append(want, v)
	}
	vfAssert("eq", vfSliceEq(out, want))
	vfUnchanged("input-unmodified", snap)
	vfReach("end")
}

func vh_C03_DropEq() {
	l := vfIntList("l", c03MaxLen(), c03Spare())
	x := vfInt("x")
	snap := vfSnapshot(l)
	var out []int
	if !vfNoPanic("nopanic", func() { out = DropEq(x, l...) }) {
		return
	}
	vfAssert("eq", vfSliceEq(out, ref03Filter(func(v, i int) bool { return v != x }, l)))
	vfUnchanged("input-unmodified", snap)
	vfReach("end")
}

func vh_C03_UniqBy() {
	l := vfIntList("l", c03MaxLen(), c03Spare())
	snap := vfSnapshot(l)
	var out []int
	if !vfNoPanic("nopanic", func() { out = UniqBy(c03F, l...) }) {
		return
	}
	var want []int
	for i, v := range l {
		dup := false
		for j := 0; j < i; j++ {
			if c03F(l[j]) == c03F(v) {
				dup = true
			}
		}
		if !dup {
			want = append(want, v)
		}
	}
	vfAssert("eq", vfSliceEq(out, want))
	vfUnchanged("input-unmodified", snap)
	vfReach("end")
}

// ---------- Drop / DropLast / Take / TakeLast / Head / Tail ----------

func c03Clamp(c, lo, hi int) int {
	if c < lo {
		return lo
	}
	if c > hi {
		return hi
	}
	return c
}

func vh_C03_Drop() {
	l := vfIntList("l", c03MaxLen(), c03Spare())
	count := vfIntIn("count", -3, len(l)+3)
	snap := vfSnapshot(l)
	var out []int
	if !vfNoPanic("nopanic", func() { out = Drop(count, l...) }) {
		return
	}
	vfAssert("eq", vfSliceEq(out, l[c03Clamp(count, 0, len(l)):]))
	vfUnchanged("input-unmodified", snap)
	vfReach("end")
}

func vh_C03_DropLast() {
	l := vfIntList("l", c03MaxLen(), c03Spare())
	count := vfIntIn("count", -3, len(l)+3)
	snap := vfSnapshot(l)
	var out []int
	if count < 0 {
		// a negative count drops nothing (documented: "drops last N item(s)")
		if !vfNoPanic("nopanic-negative-count", func() { out = DropLast(count, l...) }) {
			return
		}
		vfAssert("eq-negative-count", vfSliceEq(out, l))
	} else {
		if !vfNoPanic("nopanic", func() { out = DropLast(count, l...) }) {
			return
		}
		vfAssert("eq", vfSliceEq(out, l[:len(l)-c03Clamp(count, 0, len(l))]))
	}
	vfUnchanged("input-unmodified", snap)
	vfReach("end")
}

func vh_C03_Take() {
	l := vfIntList("l", c03MaxLen(), c03Spare())
	count := vfIntIn("count", -3, len(l)+3)
	snap := vfSnapshot(l)
	var out []int
	if !vfNoPanic("nopanic", func() { out = Take(count, l...) }) {
		return
	}
	want := l // pinned: count <= 0 or >= len gives the whole list
	if count > 0 && count < len(l) {
		want = l[:count]
	}
	vfAssert("eq", vfSliceEq(out, want))
	vfUnchanged("input-unmodified", snap)
	vfReach("end")
}

func vh_C03_TakeLast() {
	l := vfIntList("l", c03MaxLen(), c03Spare())
	count := vfIntIn("count", -3, len(l)+3)
	snap := vfSnapshot(l)
	var out []int
	if !vfNoPanic("nopanic", func() { out = TakeLast(count, l...) }) {
		return
	}
	want := l
	if count > 0 && count < len(l) {
		want = l[len(l)-count:]
	}
	vfAssert("eq", vfSliceEq(out, want))
	vfUnchanged("input-unmodified", snap)
	vfReach("end")
}

func vh_C03_HeadTail() {
	l := vfIntList("l", c03MaxLen(), c03Spare())
	snap := vfSnapshot(l)
	var h int
	var t []int
	if !vfNoPanic("nopanic", func() { h = Head(l...); t = Tail(l...) }) {
		return
	}
	if len(l) == 0 {
		vfAssert("head-zero", h == 0)
		vfAssert("tail-empty", len(t) == 0)
	} else {
		vfAssert("head", h == l[0])
		vfAssert("tail", vfSliceEq(t, l[1:]))
	}
	vfUnchanged("input-unmodified", snap)
	vfReach("end")
}

// ---------- SplitEvery ----------

func vh_C03_SplitEvery() {
	l := vfIntList("l", c03MaxLen()+1, 0)
	size := vfIntIn("size", -3, len(l)+3)
	snap := vfSnapshot(l)
	var out [][]int
	if !vfNoPanic("nopanic", func() { out = SplitEvery(size, l...) }) {
		return
	}
	if size <= 0 || len(l) <= 1 {
		// pinned: one group holding the whole list
		vfAssert("single-group", len(out) == 1)
		if len(out) == 1 {
			vfAssert("single-group-eq", vfSliceEq(out[0], l))
		}
	} else {
		sz := vfConcrete(size)
		var want [][]int
		for i := 0; i < len(l); i += sz {
			j := i + sz
			if j > len(l) {
				j = len(l)
			}
			want = append(want, l[i:j])
		}
		vfAssert("groups", len(out) == len(want))
		for i := range want {
			if i < len(out) {
				vfAssert("group-eq", vfSliceEq(out[i], want[i]))
			}
		}
	}
	vfUnchanged("input-unmodified", snap)
	vfReach("end")
}

// ---------- GroupBy / Zip / SliceToMap / Keys / Values / Merge / Duplicate* ----------

func vh_C03_GroupBy() {
	l := vfIntList("l", c03MaxLen(), 0)
	snap := vfSnapshot(l)
	var out map[int][]int
	if !vfNoPanic("nopanic", func() { out = GroupBy(c03F, l...) }) {
		return
	}
	// every element lands, in input order, in the group of its identifier; no other groups
	total := 0
	for _, g := range out {
		total += len(g)
	}
	vfAssert("total", total == len(l))
	for _, v := range l {
		g := out[c03F(v)]
		vfAssert("group", vfSliceEq(g, ref03Filter(func(o, i int) bool { return c03F(o) == c03F(v) }, l)))
	}
	vfUnchanged("input-unmodified", snap)
	vfReach("end")
}

func vh_C03_Zip() {
	a := vfIntList("a", c03MaxLen(), 0)
	b := vfIntList("b", c03MaxLen(), 0)
	snap := vfSnapshot(a, b)
	var out map[int]int
	if !vfNoPanic("nopanic", func() { out = Zip(a, b) }) {
		return
	}
	n := len(a)
	if len(b) < n {
		n = len(b)
	}
	want := map[int]int{}
	for i := 0; i < n; i++ {
		want[a[i]] = b[i]
	}
	vfAssert("eq", vfEq(out, want))
	vfUnchanged("input-unmodified", snap)
	vfReach("end")
}

func vh_C03_SliceToMap() {
	l := vfIntList("l", c03MaxLen(), 0)
	d := vfInt("d")
	var out map[int]int
	if !vfNoPanic("nopanic", func() { out = SliceToMap(d, l...) }) {
		return
	}
	want := map[int]int{}
	for _, k := range l {
		want[k] = d
	}
	vfAssert("eq", vfEq(out, want))
	vfReach("end")
}

func vh_C03_KeysValues() {
	m := vfIntMap("m", 3+vfTier())
	snap := vfSnapshot(m)
	var ks, vs []int
	if !vfNoPanic("nopanic", func() { ks = Keys(m); vs = Values(m) }) {
		return
	}
	vfSetMapOrder(2)
	var wk, wv []int
	for k, v := range m {
		wk = append(wk, k)
		wv = append(wv, v)
	}
	vfAssert("keys", vfSameMultiset(ks, wk))
	vfAssert("values", vfSameMultiset(vs, wv))
	vfUnchanged("input-unmodified", snap)
	vfReach("end")
}

func vh_C03_Merge() {
	vfSetMapOrder(1)
	a := vfIntMap("a", 2)
	b := vfIntMap("b", 2)
	snap := vfSnapshot(a, b)
	var out map[int]int
	if !vfNoPanic("nopanic", func() { out = Merge(a, b) }) {
		return
	}
	want := map[int]int{}
	for k, v := range a {
		want[k] = v
	}
	for k, v := range b {
		want[k] = v
	}
	vfAssert("eq", vfEq(out, want))
	vfAssert("non-nil", out != nil)
	vfAssert("fresh", vfAnd(!vfSameStorage(out, a), !vfSameStorage(out, b)))
	vfUnchanged("input-unmodified", snap)
	vfReach("end")
}

func vh_C03_Duplicate() {
	l := vfIntList("l", c03MaxLen(), c03Spare())
	m := vfIntMap("m", 2)
	snap := vfSnapshot(l, m)
	var ol []int
	var om map[int]int
	if !vfNoPanic("nopanic", func() { ol = DuplicateSlice(l); om = DuplicateMap(m) }) {
		return
	}
	vfAssert("slice-eq", vfSliceEq(ol, l))
	vfAssert("slice-fresh", !vfSameStorage(ol, l))
	vfAssert("map-eq", vfEq(om, m))
	vfAssert("map-fresh", vfAnd(om != nil, !vfSameStorage(om, m)))
	vfUnchanged("input-unmodified", snap)
	vfReach("end")
}

// ---------- Min / Max / MinMax / Range / IsNeg / IsPos / IsZero ----------

func vh_C03_MinMax() {
	l := vfIntList("l", c03MaxLen(), 0)
	var mn, mx, mn2, mx2 int
	if !vfNoPanic("nopanic", func() { mn = Min(l...); mx = Max(l...); mn2, mx2 = MinMax(l...) }) {
		return
	}
	if len(l) == 0 {
		vfAssert("empty-zero", vfAnd(vfAnd(mn == 0, mx == 0), vfAnd(mn2 == 0, mx2 == 0)))
	} else {
		lower, upper, isMin, isMax := true, true, false, false
		for _, v := range l {
			lower = vfAnd(lower, mn <= v)
			upper = vfAnd(upper, mx >= v)
			isMin = vfOr(isMin, mn == v)
			isMax = vfOr(isMax, mx == v)
		}
		vfAssert("min", vfAnd(lower, isMin))
		vfAssert("max", vfAnd(upper, isMax))
		vfAssert("minmax", vfAnd(mn2 == mn, mx2 == mx))
	}
	vfReach("end")
}

func vh_C03_Range() {
	lo := vfIntIn("lo", -4, 4)
	hi := vfIntIn("hi", -4, 4)
	withHop := vfChoose("withHop", 2) == 1
	hop := 1
	var out []int
	if withHop {
		hop = vfIntIn("hop", -3, 9)
		if !vfNoPanic("nopanic", func() { out = Range(lo, hi, hop) }) {
			return
		}
	} else {
		if !vfNoPanic("nopanic", func() { out = Range(lo, hi) }) {
			return
		}
	}
	if hop <= 0 || lo >= hi {
		vfAssert("empty", len(out) == 0)
	} else {
		// out = lo, lo+hop, ... while < hi
		n := len(out)
		vfAssert("nonempty", n > 0)
		for i := 0; i < n; i++ {
			vfAssert("elem", out[i] == lo+i*hop)
		}
		if n > 0 {
			vfAssert("last-below", out[n-1] < hi)
			vfAssert("next-not-below", out[n-1]+hop >= hi)
		}
	}
	vfReach("end")
}

func vh_C03_Sign() {
	x := vfInt("x")
	vfAssert("neg", IsNeg(x) == (x < 0))
	vfAssert("pos", IsPos(x) == (x > 0))
	vfAssert("zero", IsZero(x) == (x == 0))
	f := vfFloat64("f")
	vfAssert("fneg", IsNeg(f) == (f < 0))
	vfAssert("fpos", IsPos(f) == (f > 0))
	vfAssert("fzero", IsZero(f) == (f == 0))
	vfReach("end")
}

// ---------- Every / Some / Exists / IsEqual / IsEqualMap / IsDistinct ----------

func vh_C03_EverySomeExists() {
	l := vfIntList("l", c03MaxLen(), 0)
	x := vfInt("x")
	var ev, so, ex bool
	if !vfNoPanic("nopanic", func() { ev = Every(c03P, l...); so = Some(c03P, l...); ex = Exists(x, l...) }) {
		return
	}
	all, any := len(l) > 0, false // pinned: Every of an empty list is false
	for _, v := range l {
		all = vfAnd(all, c03P(v))
		any = vfOr(any, c03P(v))
	}
	vfAssert("every", ev == all)
	vfAssert("some", so == any)
	vfAssert("exists", ex == vfMember(l, x))
	vfAssert("every-nil-pred", !Every[int](nil, l...))
	vfAssert("some-nil-pred", !Some[int](nil, l...))
	vfReach("end")
}

func vh_C03_IsEqual() {
	a := vfIntList("a", c03MaxLen(), 0)
	b := vfIntList("b", c03MaxLen(), 0)
	var r bool
	if !vfNoPanic("nopanic", func() { r = IsEqual(a, b) }) {
		return
	}
	if len(a) == 0 || len(b) == 0 {
		vfAssert("empty-false", !r) // pinned
	} else {
		vfAssert("eq", r == vfSliceEq(a, b))
	}
	vfReach("end")
}

func vh_C03_IsEqualMap() {
	vfSetMapOrder(1)
	a := vfIntMap("a", 2)
	b := vfIntMap("b", 2)
	var r bool
	if !vfNoPanic("nopanic", func() { r = IsEqualMap(a, b) }) {
		return
	}
	if len(a) == 0 || len(b) == 0 {
		vfAssert("empty-false", !r) // pinned
	} else {
		vfAssert("eq", r == vfEq(a, b))
	}
	vfReach("end")
}

func vh_C03_IsDistinct() {
	l := vfIntList("l", c03MaxLen(), 0)
	var r bool
	if !vfNoPanic("nopanic", func() { r = IsDistinct(l...) }) {
		return
	}
	if len(l) == 0 {
		vfAssert("empty-false", !r) // pinned
	} else {
		vfAssert("eq", r == vfNoDup(l))
	}
	vfReach("end")
}

// ---------- second instantiation: comparable struct elements ----------

func vh_C03_StructElems() {
	l := vfPairList("l", 3)
	x := vfPair{vfInt("x.A"), vfInt("x.B")}
	var d, de, rv []vfPair
	var ex bool
	if !vfNoPanic("nopanic", func() {
		d = Distinct(l...)
		de = DropEq(x, l...)
		rv = Reverse(l...)
		ex = Exists(x, l...)
	}) {
		return
	}
	var wd, wde []vfPair
	m := false
	for i, v := range l {
		dup := false
		for j := 0; j < i; j++ {
			if l[j] == v {
				dup = true
			}
		}
		if !dup {
			wd = append(wd, v)
		}
		if v != x {
			wde = append(wde, v)
		}
		m = vfOr(m, v == x)
	}
	vfAssert("distinct", vfEq(d, wd))
	vfAssert("dropeq", vfEq(de, wde))
	vfAssert("exists", ex == m)
	vfAssert("reverse-len", len(rv) == len(l))
	for i := range l {
		if i < len(rv) {
			vfAssert("reverse-elem", rv[i] == l[len(l)-1-i])
		}
	}
	vfReach("end")
}

func vh_C03_SliceOfPtrOf() {
	a, b := vfInt("a"), vfInt("b")
	s := SliceOf(a, b)
	vfAssert("sliceof", vfAnd(len(s) == 2, vfAnd(s[0] == a, s[1] == b)))
	p := PtrOf(a)
	vfAssert("ptrof", vfAnd(p != nil, *p == a))
	vfReach("end")
}

// AT SCALE: the list helpers on a CONCRETE list whose length is taken from the code (vfProbe: just beyond every integer
// constant the helpers compare a length, a count or an index with - a fast path, a pre-sizing limit, a chunk size in
// the CURRENT source), next to the small size 7; values from a family of 5 (many repeats), concrete predicates and
// functions, each result compared with a plain reference loop. On a tree without such constants: one small run.
func vh_C03_AtScale() {
	vfSetMapOrder(3)
	n := vfProbe("n", "Map|Reduce|Filter|Reject|Partition|DropWhile|Concat|Flatten|Prepend|Reverse|Distinct|Dedupe|DropEq|UniqBy|Drop|Take|Head|Tail|SplitEvery|GroupBy|Zip|SliceToMap|Keys|Values|Merge|Min|Max|Range|Every|Some|Exists|IsEqual|IsDistinct|Duplicate", 7, 7)
	l := make([]int, n)
	for i := range l {
		l[i] = (i*7 + 3) % 5
	}
	orig := append([]int{}, l...)
	even := func(v int) bool { return v%2 == 0 }
	evenI := func(v, i int) bool { return (v+i)%2 == 0 }
	f := func(v int) int { return 3*v + 1 }
	same := func(label string, got, want []int) {
		ok := len(got) == len(want)
		for i := 0; ok && i < len(want); i++ {
			ok = got[i] == want[i]
		}
		vfAssert(label, ok)
	}
	if !vfNoPanic("nopanic", func() {
		var want, want2 []int
		// Map / MapIndexed / Reduce
		want = nil
		sum := 0
		for i, v := range l {
			want = append(want, f(v))
			want2 = append(want2, v+i)
			sum = sum*3 + v
		}
		same("map", Map(f, l...), want)
		same("mapindexed", MapIndexed(func(v, i int) int { return v + i }, l...), want2)
		vfAssert("reduce", Reduce(func(m, v int) int { return m*3 + v }, 0, l...) == sum)
		// Filter / Reject / Partition / DropWhile
		var keep, drop, pt, pf, dw []int
		dropping := true
		for i, v := range l {
			if evenI(v, i) {
				keep = append(keep, v)
			} else {
				drop = append(drop, v)
			}
			if even(v) {
				pt = append(pt, v)
			} else {
				pf = append(pf, v)
			}
			if dropping && v != 0 {
				continue
			}
			dropping = false
			dw = append(dw, v)
		}
		same("filter", Filter(evenI, l...), keep)
		same("reject", Reject(evenI, l...), drop)
		parts := Partition(even, l...)
		vfAssert("partition", len(parts) == 2)
		if len(parts) == 2 {
			same("partition-true", parts[0], pt)
			same("partition-false", parts[1], pf)
		}
		same("dropwhile", DropWhile(func(v int) bool { return v != 0 }, l...), dw)
		// Reverse / Distinct / Dedupe / DropEq / UniqBy / IsDistinct / Exists
		var rev, dist, ded, deq, uq []int
		seen, seenU := map[int]bool{}, map[int]bool{}
		for i := range l {
			rev = append(rev, l[len(l)-1-i])
		}
		for i, v := range l {
			if !seen[v] {
				dist = append(dist, v)
			}
			seen[v] = true
			if i == 0 || l[i-1] != v {
				ded = append(ded, v)
			}
			if v != 3 {
				deq = append(deq, v)
			}
			if !seenU[v%3] {
				uq = append(uq, v)
			}
			seenU[v%3] = true
		}
		same("reverse", Reverse(l...), rev)
		same("distinct", Distinct(l...), dist)
		same("dedupe", Dedupe(l...), ded)
		same("dropeq", DropEq(3, l...), deq)
		same("uniqby", UniqBy(func(v int) int { return v % 3 }, l...), uq)
		vfAssert("isdistinct", IsDistinct(l...) == (len(dist) == len(l)))
		vfAssert("exists", Exists(4, l...) == seen[4] && !Exists(9, l...))
		// Drop / DropLast / Take / TakeLast / Head / Tail around the middle and the ends
		for _, c := range []int{0, 1, n / 2, n - 1, n, n + 1} {
			k := c
			if k > n {
				k = n
			}
			same("drop", Drop(c, l...), l[k:])
			same("droplast", DropLast(c, l...), l[:n-k])
			if c > 0 { // (a count of 0 gives the whole list: pinned, see vh_C03_Take)
				same("take", Take(c, l...), l[:k])
				same("takelast", TakeLast(c, l...), l[n-k:])
			}
		}
		vfAssert("head", Head(l...) == l[0])
		same("tail", Tail(l...), l[1:])
		// SplitEvery / Concat / Flatten / Prepend / DuplicateSlice
		for _, size := range []int{1, 3, n - 1, n} {
			groups := SplitEvery(size, l...)
			var flat []int
			okSizes := true
			for gi, g := range groups {
				flat = append(flat, g...)
				if len(g) > size || (gi < len(groups)-1 && len(g) != size) {
					okSizes = false
				}
			}
			vfAssert("splitevery-sizes", okSizes)
			same("splitevery-content", flat, l)
		}
		same("concat", Concat(l, l[:2], nil, l[2:]), append(append(append([]int{}, l...), l[:2]...), l[2:]...))
		same("flatten", Flatten(l[:3], l[3:]), l)
		same("prepend", Prepend(9, l), append([]int{9}, l...))
		same("duplicate", DuplicateSlice(l), l)
		// GroupBy / Zip / SliceToMap / Keys / Values / MinMax / Every / Some / IsEqual
		groups := GroupBy(func(v int) int { return v % 2 }, l...)
		same("groupby-even", groups[0], pt)
		same("groupby-odd", groups[1], pf)
		z := Zip(l, rev)
		okZip := true
		last := map[int]int{}
		for i, v := range l {
			last[v] = rev[i]
		}
		for k, v := range last {
			okZip = okZip && z[k] == v
		}
		vfAssert("zip", okZip && len(z) == len(last))
		sm := SliceToMap(7, l...)
		vfAssert("slicetomap", len(sm) == len(dist) && sm[l[0]] == 7)
		vfAssert("keys-values", len(Keys(sm)) == len(dist) && len(Values(sm)) == len(dist))
		mn, mx := l[0], l[0]
		all, some := true, false
		for _, v := range l {
			if v < mn {
				mn = v
			}
			if v > mx {
				mx = v
			}
			all = all && even(v)
			some = some || even(v)
		}
		gmn, gmx := MinMax(l...)
		vfAssert("minmax", gmn == mn && gmx == mx && Min(l...) == mn && Max(l...) == mx)
		vfAssert("every-some", Every(even, l...) == all && Some(even, l...) == some)
		vfAssert("isequal", IsEqual(l, orig) && !IsEqual(l, rev[:n-1]))
		r := Range(0, n)
		okRange := len(r) == n
		for i := 0; okRange && i < n; i++ {
			okRange = r[i] == i
		}
		vfAssert("range", okRange)
	}) {
		return
	}
	same("input-unmodified", l, orig)
	vfReach("end")
}
