package fpgo

// C06: LinkedListQueue behaves as an ideal double-ended sequence for every operation history.
// (A) step harness: from every state "n values queued, p recycled nodes pooled" (reached through the public API:
//     n+p offers, p head removals; values symbolic) two operations chosen from the whole API, then a full drain in
//     one of four patterns; every return value / error / Count is compared with an ideal deque. Every reachable
//     state is, up to node identity, of this (n, p) shape, so this covers one-and-two-step behaviour from all of
//     them with n <= 3 (thorough 4), p <= 2. Nothing here touches unexported fields: a representation change that
//     keeps the behaviour cannot raise an alarm.
// (B) bounded histories from NewLinkedListQueue(): K operations + drain (directly replayable public-API runs).
// (C) pool maintenance (KeepNodePoolCount / ClearNodePool) on a pool of 2..3 nodes followed by a burst of 2..4 insertions.
// sync.Pool.Get is nondeterministic (fresh node or any node previously Put), explored as a decision.
// KeepNodePoolCount(n): n is a symbolic int with n <= 2 (thorough 3), unbounded below.

type c06Model struct{ items []int }

var c06Ops = []string{"Offer", "Push", "Put", "Unshift", "Shift", "Poll", "Take", "Pop", "Peek", "Count", "Clear", "KeepNodePoolCount", "ClearNodePool"}

// c06Apply runs op on both the queue and the ideal deque and compares what is observable.
func c06Apply(tag string, op string, q *LinkedListQueue[int], m *c06Model) {
	ok := vfNoPanic(tag+op+"/nopanic", func() {
		switch op {
		case "Offer", "Push", "Put":
			v := vfInt("val")
			var err error
			switch op {
			case "Offer":
				err = q.Offer(v)
			case "Push":
				err = q.Push(v)
			default:
				err = q.Put(v)
			}
			vfAssert(tag+op+"/no-error", err == nil)
			m.items = append(m.items, v)
		case "Unshift":
			v := vfInt("val")
			vfAssert(tag+op+"/no-error", q.Unshift(v) == nil)
			m.items = append([]int{v}, m.items...)
		case "Shift", "Poll", "Take":
			var got int
			var err error
			switch op {
			case "Shift":
				got, err = q.Shift()
			case "Poll":
				got, err = q.Poll()
			default:
				got, err = q.Take()
			}
			if len(m.items) == 0 {
				vfAssert(tag+op+"/empty-error", err == ErrQueueIsEmpty)
			} else {
				vfAssert(tag+op+"/no-error", err == nil)
				vfAssert(tag+op+"/head-value", got == m.items[0])
				m.items = m.items[1:]
			}
		case "Pop":
			got, err := q.Pop()
			if len(m.items) == 0 {
				vfAssert(tag+op+"/empty-error", err == ErrStackIsEmpty)
			} else {
				vfAssert(tag+op+"/no-error", err == nil)
				vfAssert(tag+op+"/tail-value", got == m.items[len(m.items)-1])
				m.items = m.items[:len(m.items)-1]
			}
		case "Peek":
			got, err := q.Peek()
			if len(m.items) == 0 {
				vfAssert(tag+op+"/empty-error", err == ErrQueueIsEmpty)
			} else {
				vfAssert(tag+op+"/no-error", err == nil)
				vfAssert(tag+op+"/head-value", got == m.items[0])
			}
		case "Count":
		case "Clear":
			q.Clear()
			m.items = nil
		case "KeepNodePoolCount":
			// the argument is a symbolic int: every non-positive n is one path (the solver decides the n <= 0 branch for
			// all of them at once), positive n is followed through the code's own loop up to the stated bound
			keep := vfInt("keep")
			vfAssume(keep <= 2+vfTier())
			q.KeepNodePoolCount(keep)
		case "ClearNodePool":
			q.ClearNodePool()
		}
		vfAssert(tag+op+"/count", q.Count() == len(m.items))
	})
	_ = ok
}

// c06Drain empties the queue in the given pattern, comparing every value.
func c06Drain(q *LinkedListQueue[int], m *c06Model, mode int) {
	for i := 0; len(m.items) > 0 && i < 16; i++ {
		fromHead := mode == 0 || (mode == 2 && i%2 == 0) || (mode == 3 && i%2 == 1)
		if fromHead {
			c06Apply("drain/", "Shift", q, m)
		} else {
			c06Apply("drain/", "Pop", q, m)
		}
	}
	c06Apply("drained/", "Shift", q, m)
	c06Apply("drained/", "Pop", q, m)
}

// c06Canonical brings a fresh queue, through the public API only, into the state "n values queued, p recycled nodes
// in the node pool": n+p offers followed by p head removals (every step compared with the ideal deque as well).
func c06Canonical(n, p int) (*LinkedListQueue[int], *c06Model) {
	q := NewLinkedListQueue[int]()
	m := &c06Model{}
	for i := 0; i < n+p; i++ {
		c06Apply("setup/", "Offer", q, m)
	}
	for i := 0; i < p; i++ {
		c06Apply("setup/", "Shift", q, m)
	}
	return q, m
}

func vh_C06_Step() {
	n := vfRange("n", 0, 3+vfTier())
	p := vfRange("p", 0, 2)
	q, m := c06Canonical(n, p)
	op1 := c06Ops[vfChoose("op1", len(c06Ops))]
	op2 := c06Ops[vfChoose("op2", len(c06Ops))]
	c06Apply("", op1, q, m)
	c06Apply("", op2, q, m)
	c06Drain(q, m, vfChoose("drain", 4))
	vfReach("end")
}

// histories through the public API only
var c06HistOps = []string{"Offer", "Unshift", "Shift", "Pop", "Peek", "Clear", "KeepNodePoolCount", "ClearNodePool"}

func vh_C06_History() {
	q := NewLinkedListQueue[int]()
	m := &c06Model{}
	k := 4 + vfTier()
	for i := 0; i < k; i++ {
		c06Apply("", c06HistOps[vfChoose("op", len(c06HistOps))], q, m)
	}
	c06Drain(q, m, vfChoose("drain", 4))
	vfReach("end")
}

// the history named in the property: head and tail removals mixed
func vh_C06_MixedEnds() {
	q := NewLinkedListQueue[int]()
	m := &c06Model{}
	n := vfRange("n", 2, 4)
	for i := 0; i < n; i++ {
		c06Apply("", "Offer", q, m)
	}
	for i := 0; i < n+1; i++ {
		if vfChoose("end", 2) == 0 {
			c06Apply("", "Shift", q, m)
		} else {
			c06Apply("", "Pop", q, m)
		}
	}
	c06Apply("", "Offer", q, m)
	c06Drain(q, m, vfChoose("drain", 4))
	vfReach("end")
}

// node-pool maintenance followed by a burst of insertions: from "n values queued, p recycled nodes pooled" (p = 2..3)
// the pool is cut or grown with KeepNodePoolCount(k) (k symbolic) or ClearNodePool, then 2..4 values are inserted at
// either end without any removal in between - so the kept nodes, whatever they still point at, and whatever sync.Pool
// hands back are all reused - and the whole is drained against the ideal deque
func vh_C06_PoolCutThenBurst() {
	n := vfRange("n", 0, 1)
	p := vfRange("p", 2, 3)
	q, m := c06Canonical(n, p)
	if vfChoose("maintenance", 3) == 2 {
		c06Apply("", "ClearNodePool", q, m)
	} else {
		c06Apply("", "KeepNodePoolCount", q, m)
	}
	burst := vfRange("burst", 2, 4)
	for i := 0; i < burst; i++ {
		if vfChoose("end", 2) == 0 {
			c06Apply("burst/", "Offer", q, m)
		} else {
			c06Apply("burst/", "Unshift", q, m)
		}
	}
	c06Drain(q, m, vfChoose("drain", 4))
	vfReach("end")
}

// AT SCALE: a plain FIFO history and a both-ends history whose length is taken from the code (vfProbe: just beyond every
// integer constant the LinkedListQueue methods compare a count with - a cap on the node cache, a batch size), next to
// the small size 5; sync.Pool acts as a LIFO cache (no decision spent on it). Every return value is compared with the
// ideal deque, as everywhere else. On a tree without such constants this is one small run.
func vh_C06_AtScale() {
	vfSetPoolMode(1)
	n := vfProbe("n", "LinkedListQueue", 5, 5)
	q := NewLinkedListQueue[int]()
	m := &c06Model{}
	if vfChoose("history", 2) == 0 {
		for i := 0; i < n; i++ {
			c06Apply("scale/", "Offer", q, m)
		}
		for i := 0; i < n-1; i++ {
			c06Apply("scale/", "Shift", q, m)
		}
		for i := 0; i < n-1; i++ {
			c06Apply("scale/", "Offer", q, m)
		}
	} else {
		for i := 0; i < n; i++ {
			if i%2 == 0 {
				c06Apply("scale/", "Offer", q, m)
			} else {
				c06Apply("scale/", "Unshift", q, m)
			}
		}
		for i := 0; i < n-1; i++ {
			if i%3 == 0 {
				c06Apply("scale/", "Pop", q, m)
			} else {
				c06Apply("scale/", "Shift", q, m)
			}
		}
		for i := 0; i < n; i++ {
			c06Apply("scale/", "Unshift", q, m)
		}
	}
	drain := vfChoose("drain", 3) // from the head only, from the tail only, alternating
	for len(m.items) > 0 {
		if drain == 0 || (drain == 2 && vfConcrete(len(m.items))%2 == 0) {
			c06Apply("scale-drain/", "Shift", q, m)
		} else {
			c06Apply("scale-drain/", "Pop", q, m)
		}
	}
	c06Apply("drained/", "Shift", q, m)
	c06Apply("drained/", "Pop", q, m)
	c06Apply("drained/", "Peek", q, m)
	c06Apply("refill/", "Offer", q, m)
	c06Apply("refill/", "Shift", q, m)
	vfReach("end")
}
