package fpgo

// vf:instrument

import (
	"errors"
	"reflect"
	"sync"
)

// C20: combinators compose in the documented order; adapters pass exactly the bound and supplied arguments;
// Trampoline iterates until done/error; CurryDef accumulates; MatchFor is first-match, panics iff none accepts.
// Functions are uninterpreted symbols (distinct names => distinguishable, non-commuting by construction).

func c20Fn(i int) func(...int) []int {
	name := []string{"f0", "f1", "f2", "f3", "f4", "f5"}[i]
	return func(args ...int) []int {
		// two results from all arguments: order and arity of what is passed along both matter
		a, b := 0, 0
		if len(args) > 0 {
			a = args[0]
		}
		if len(args) > 1 {
			b = args[1]
		}
		return []int{vfFn(name+".a", a, b, len(args)), vfFn(name+".b", a, b, len(args))}
	}
}

func vh_C20_ComposePipe() {
	n := vfRange("n", 1, 6)
	fs := make([]func(...int) []int, n)
	rev := make([]func(...int) []int, n)
	for i := 0; i < n; i++ {
		fs[i] = c20Fn(i)
		rev[n-1-i] = fs[i]
	}
	x, y := vfInt("x"), vfInt("y")
	// reference: f1(f2(...fn(x))) and fn(...f1(x))
	wantC := []int{x, y}
	for i := n - 1; i >= 0; i-- {
		wantC = fs[i](wantC...)
	}
	wantP := []int{x, y}
	for i := 0; i < n; i++ {
		wantP = fs[i](wantP...)
	}
	ok := vfNoPanic("nopanic", func() {
		vfAssert("compose", vfSliceEq(Compose(fs...)(x, y), wantC))
		vfAssert("pipe", vfSliceEq(Pipe(fs...)(x, y), wantP))
		vfAssert("compose-is-pipe-of-reverse", vfSliceEq(Compose(fs...)(x, y), Pipe(rev...)(x, y)))
		if n >= 2 {
			k := vfRange("split", 1, n-1)
			// regrouping: Compose(f1..fk, Compose(fk+1..fn)) and Compose(Compose(f1..fk), fk+1..fn)
			right := append(append([]func(...int) []int{}, fs[:k]...), Compose(fs[k:]...))
			left := append([]func(...int) []int{Compose(fs[:k]...)}, fs[k:]...)
			vfAssert("compose-assoc-right", vfSliceEq(Compose(right...)(x, y), wantC))
			vfAssert("compose-assoc-left", vfSliceEq(Compose(left...)(x, y), wantC))
			pright := append(append([]func(...int) []int{}, fs[:k]...), Pipe(fs[k:]...))
			vfAssert("pipe-assoc", vfSliceEq(Pipe(pright...)(x, y), wantP))
		}
		// interface{} variants
		if n <= 3 {
			ifs := make([]func(...interface{}) []interface{}, n)
			for i := 0; i < n; i++ {
				f := fs[i]
				ifs[i] = func(args ...interface{}) []interface{} {
					in := make([]int, len(args))
					for j, a := range args {
						in[j] = a.(int)
					}
					out := f(in...)
					return []interface{}{out[0], out[1]}
				}
			}
			ci := ComposeInterface(ifs...)(x, y)
			pi := PipeInterface(ifs...)(x, y)
			vfAssert("compose-interface", vfAnd(len(ci) == 2, vfAnd(ci[0].(int) == wantC[0], ci[1].(int) == wantC[1])))
			vfAssert("pipe-interface", vfAnd(len(pi) == 2, vfAnd(pi[0].(int) == wantP[0], pi[1].(int) == wantP[1])))
		}
	})
	if ok {
		vfReach("end")
	}
}

// ---------- adapters ----------

func vh_C20_Variadic() {
	a := []int{vfInt("a0"), vfInt("a1"), vfInt("a2"), vfInt("a3"), vfInt("a4"), vfInt("a5"), vfInt("a6")}
	calls := 0
	ok := vfNoPanic("nopanic", func() {
		r1 := MakeVariadicParam1(func(x int) []int { calls++; return []int{vfFn("p1", x)} })(a...)
		vfAssert("param1", vfAnd(len(r1) == 1, r1[0] == vfFn("p1", a[0])))
		r2 := MakeVariadicParam2(func(x, y int) []int { calls++; return []int{vfFn("p2", x, y)} })(a...)
		vfAssert("param2", vfAnd(len(r2) == 1, r2[0] == vfFn("p2", a[0], a[1])))
		r3 := MakeVariadicParam3(func(x, y, z int) []int { calls++; return []int{vfFn("p3", x, y, z)} })(a...)
		vfAssert("param3", vfAnd(len(r3) == 1, r3[0] == vfFn("p3", a[0], a[1], a[2])))
		r4 := MakeVariadicParam4(func(x, y, z, w int) []int { calls++; return []int{vfFn("p4", x, y, z, w)} })(a...)
		vfAssert("param4", vfAnd(len(r4) == 1, r4[0] == vfFn("p4", a[0], a[1], a[2], a[3])))
		r5 := MakeVariadicParam5(func(x, y, z, w, v int) []int { calls++; return []int{vfFn("p5", x, y, z, w, v)} })(a...)
		vfAssert("param5", vfAnd(len(r5) == 1, r5[0] == vfFn("p5", a[0], a[1], a[2], a[3], a[4])))
		r6 := MakeVariadicParam6(func(x, y, z, w, v, u int) []int { calls++; return []int{vfFn("p6", x, y, z, w, v, u)} })(a...)
		vfAssert("param6", vfAnd(len(r6) == 1, r6[0] == vfFn("p6", a[0], a[1], a[2], a[3], a[4], a[5])))
		vfAssert("param-called-once-each", calls == 6)

		sum := func(args ...int) int { return vfFn("all", args[0], args[1], len(args)) }
		q1 := MakeVariadicReturn1(func(args ...int) int { return sum(args...) })(a...)
		vfAssert("return1", vfAnd(len(q1) == 1, q1[0] == sum(a...)))
		q2 := MakeVariadicReturn2(func(args ...int) (int, int) { return args[0], args[1] })(a...)
		vfAssert("return2", vfAnd(len(q2) == 2, vfAnd(q2[0] == a[0], q2[1] == a[1])))
		q3 := MakeVariadicReturn3(func(args ...int) (int, int, int) { return args[0], args[1], args[2] })(a...)
		vfAssert("return3", vfAnd(len(q3) == 3, vfAnd(q3[0] == a[0], vfAnd(q3[1] == a[1], q3[2] == a[2]))))
		q4 := MakeVariadicReturn4(func(args ...int) (int, int, int, int) { return args[0], args[1], args[2], args[3] })(a...)
		vfAssert("return4", vfAnd(len(q4) == 4, vfSliceEq(q4, a[:4])))
		q5 := MakeVariadicReturn5(func(args ...int) (int, int, int, int, int) { return args[0], args[1], args[2], args[3], args[4] })(a...)
		vfAssert("return5", vfAnd(len(q5) == 5, vfSliceEq(q5, a[:5])))
		q6 := MakeVariadicReturn6(func(args ...int) (int, int, int, int, int, int) {
			return args[0], args[1], args[2], args[3], args[4], args[5]
		})(a...)
		vfAssert("return6", vfAnd(len(q6) == 6, vfSliceEq(q6, a[:6])))

		b1 := MakeNumericReturnForVariadicParamReturnBool1[int, int](func(args ...int) bool { return vfPred("nb", args[0], len(args)) })(a...)
		vfAssert("numeric-variadic", vfAnd(len(b1) == 1, b1[0] == vfIte(vfPred("nb", a[0], len(a)), 1, 0)))
		b2 := MakeNumericReturnForSliceParamReturnBool1[int, int](func(args []int) bool { return vfPred("nb", args[0], len(args)) })(a...)
		vfAssert("numeric-slice", vfAnd(len(b2) == 1, b2[0] == vfIte(vfPred("nb", a[0], len(a)), 1, 0)))
		b3 := MakeNumericReturnForParam1ReturnBool1[int, int](func(x int) bool { return vfPred("nb1", x) })(a...)
		vfAssert("numeric-param1", vfAnd(len(b3) == 1, b3[0] == vfIte(vfPred("nb1", a[0]), 1, 0)))
	})
	if ok {
		vfReach("end")
	}
}

func vh_C20_CurryParam() {
	b := []int{vfInt("b0"), vfInt("b1"), vfInt("b2"), vfInt("b3"), vfInt("b4"), vfInt("b5")}
	n := vfRange("n", 0, 2)
	rest := make([]int, n)
	for i := range rest {
		rest[i] = vfInt("r")
	}
	r0, r1 := 0, 0
	if n > 0 {
		r0 = rest[0]
	}
	if n > 1 {
		r1 = rest[1]
	}
	tail := func(t []int) (int, int, int) {
		x, y := 0, 0
		if len(t) > 0 {
			x = t[0]
		}
		if len(t) > 1 {
			y = t[1]
		}
		return x, y, len(t)
	}
	ok := vfNoPanic("nopanic", func() {
		c1 := CurryParam1(func(a int, t ...int) int { x, y, l := tail(t); return vfFn("c1", a, x, y, l) }, b[0])
		vfAssert("curry1", c1(rest...) == vfFn("c1", b[0], r0, r1, n))
		cs := CurryParam1ForSlice1(func(a int, t []int) int { x, y, l := tail(t); return vfFn("cs", a, x, y, l) }, b[0])
		vfAssert("curry1-slice", cs(rest...) == vfFn("cs", b[0], r0, r1, n))
		c2 := CurryParam2(func(a, a2 int, t ...int) int { x, y, l := tail(t); return vfFn("c2", a, a2, x, y, l) }, b[0], b[1])
		vfAssert("curry2", c2(rest...) == vfFn("c2", b[0], b[1], r0, r1, n))
		c3 := CurryParam3(func(a, a2, a3 int, t ...int) int { x, y, l := tail(t); return vfFn("c3", a, a2, a3, x, y, l) }, b[0], b[1], b[2])
		vfAssert("curry3", c3(rest...) == vfFn("c3", b[0], b[1], b[2], r0, r1, n))
		c4 := CurryParam4(func(a, a2, a3, a4 int, t ...int) int { x, y, l := tail(t); return vfFn("c4", a, a2, a3, a4, x, y, l) }, b[0], b[1], b[2], b[3])
		vfAssert("curry4", c4(rest...) == vfFn("c4", b[0], b[1], b[2], b[3], r0, r1, n))
		c5 := CurryParam5(func(a, a2, a3, a4, a5 int, t ...int) int {
			x, y, l := tail(t)
			return vfFn("c5", a, a2, a3, a4, a5, x, y, l)
		}, b[0], b[1], b[2], b[3], b[4])
		vfAssert("curry5", c5(rest...) == vfFn("c5", b[0], b[1], b[2], b[3], b[4], r0, r1, n))
		c6 := CurryParam6(func(a, a2, a3, a4, a5, a6 int, t ...int) int {
			x, y, l := tail(t)
			return vfFn("c6", a, a2, a3, a4, a5, a6, x, y, l)
		}, b[0], b[1], b[2], b[3], b[4], b[5])
		vfAssert("curry6", c6(rest...) == vfFn("c6", b[0], b[1], b[2], b[3], b[4], b[5], r0, r1, n))
	})
	if ok {
		vfReach("end")
	}
}

// ---------- Trampoline ----------

func vh_C20_Trampoline() {
	stop := vfRange("stop", 1, 4)
	errAt := vfRange("errAt", 0, 5) // 0 = never
	x := vfInt("x")
	boom := errors.New("boom")
	steps := 0
	step := func(args ...int) ([]int, bool, error) {
		steps++
		if steps == errAt {
			return []int{-1}, false, boom
		}
		return []int{vfFn("step", args[0])}, steps == stop, nil
	}
	var out []int
	var err error
	if !vfNoPanic("nopanic", func() { out, err = Trampoline(step, x) }) {
		return
	}
	if errAt != 0 && errAt <= stop {
		vfAssert("error-surfaces", err == boom)
		vfAssert("error-no-result", out == nil)
		vfAssert("error-stops-iteration", steps == errAt)
	} else {
		want := x
		for i := 0; i < stop; i++ {
			want = vfFn("step", want)
		}
		vfAssert("no-error", err == nil)
		vfAssert("result", vfAnd(len(out) == 1, out[0] == want))
		vfAssert("iterations", steps == stop)
	}
	vfReach("end")
}

// ---------- CurryDef ----------

func vh_C20_CurryDefSequential() {
	calls := 0
	var seen [][]int
	doneAfter := vfRange("doneAfter", 1, 4) // MarkDone is issued inside the doneAfter-th invocation (4 = never)
	c := CurryNewGenerics(func(c *CurryDef[int, int], args ...int) int {
		calls++
		seen = append(seen, append([]int{}, args...))
		if calls == doneAfter {
			c.MarkDone()
		}
		return vfFn("res", len(args), calls)
	})
	batches := [][]int{{vfInt("a")}, {vfInt("b"), vfInt("c")}, {vfInt("d")}}
	if k := vfChoose("empty-call-at", 4); k < 3 {
		batches[k] = nil // a Call with no argument still invokes the function once, with all arguments so far
	}
	var all []int
	ok := vfNoPanic("nopanic", func() {
		for i, b := range batches {
			ret := c.Call(b...)
			vfAssert("lemma/call-returns-self", ret == c)
			if i < doneAfter {
				all = append(all, b...)
				vfAssert("invoked-once-per-call", calls == i+1)
				vfAssert("sees-all-args-so-far", vfSliceEq(seen[len(seen)-1], all))
				vfAssert("result-is-latest", c.Result() == vfFn("res", len(all), i+1))
			} else {
				vfAssert("frozen-no-invocation", calls == doneAfter)
				vfAssert("frozen-result", c.Result() == vfFn("res", len(all), doneAfter))
			}
			vfAssert("isdone", c.IsDone() == (i+1 >= doneAfter))
		}
	})
	if ok {
		vfReach("end")
	}
}

// the caller keeps (and reuses) the slice it spread into a Call: what the CurryDef has accumulated is its own - a later
// write to the caller's buffer, or a later Call, changes neither the arguments already taken nor the caller's data
func vh_C20_CurryDefCallerOwnedSlices() {
	var seen [][]int
	c := CurryNewGenerics(func(c *CurryDef[int, int], args ...int) int {
		seen = append(seen, append([]int{}, args...))
		return len(args)
	})
	a, b, d, e := vfInt("a"), vfInt("b"), vfInt("d"), vfInt("e")
	buf := make([]int, 1, 1+vfRange("spare-capacity", 0, 2))
	buf[0] = a
	ok := vfNoPanic("nopanic", func() {
		c.Call(buf...)
		buf[0] = e // the caller reuses its buffer
		c.Call(b)
		c.Call(d)
	})
	if !ok {
		return
	}
	vfAssert("invoked-once-per-call", len(seen) == 3)
	if len(seen) == 3 {
		vfAssert("sees-all-args-so-far", vfAnd(vfSliceEq(seen[0], []int{a}), vfAnd(vfSliceEq(seen[1], []int{a, b}), vfSliceEq(seen[2], []int{a, b, d}))))
	}
	vfAssert("callers-buffer-untouched", vfAnd(len(buf) == 1, buf[0] == e))
	if cap(buf) > 1 {
		vfAssert("lemma/callers-spare-capacity-untouched", buf[:2][1] == 0) // not observable through the property
	}
	vfReach("end")
}

func vh_C20_CurryDefConcurrent() {
	vfMemPoints(true)
	var mu sync.Mutex
	var seen [][]int
	c := CurryNewGenerics(func(c *CurryDef[int, int], args ...int) int {
		mu.Lock()
		seen = append(seen, append([]int{}, args...))
		mu.Unlock()
		return len(args)
	})
	a, b := vfInt("a"), vfInt("b")
	vfAssume(a != b)
	var wg sync.WaitGroup
	wg.Add(2)
	go func() { c.Call(a); wg.Done() }()
	go func() { c.Call(b); wg.Done() }()
	wg.Wait()
	vfMemPoints(false)
	vfAssert("two-invocations", len(seen) == 2)
	if len(seen) == 2 {
		// a serialization: first invocation saw one argument, the second saw both, extending the first
		vfAssert("first-saw-one", len(seen[0]) == 1)
		vfAssert("second-saw-both", len(seen[1]) == 2)
		if len(seen[0]) == 1 && len(seen[1]) == 2 {
			vfAssert("prefix", seen[1][0] == seen[0][0])
			vfAssert("both-present", vfOr(vfAnd(seen[1][0] == a, seen[1][1] == b), vfAnd(seen[1][0] == b, seen[1][1] == a)))
		}
	}
	vfAssert("result", c.Result() == 2)
	vfReach("end")
}

// ---------- pattern matching ----------

type c20Plain struct{ A int }

type c20Hit struct {
	I int
	V interface{}
}

const c20Regex = "^[0-9]+$"

// c20Probe returns probe number k and, for reference purposes, the value MatchFor actually tests
// (a non-nil pointer to a struct is replaced by its pointee: pinned behaviour the suite relies on).
func c20Probe(k int, sumT CompType) (probe interface{}, tested interface{}) {
	switch k {
	case 0:
		v := vfInt("p")
		return v, v
	case 1:
		return "123", "123"
	case 2:
		return "abc", "abc"
	case 3:
		return nil, nil
	case 4:
		var p *int
		return p, p
	case 5:
		s := c20Plain{vfInt("s")}
		return s, s
	case 6:
		s := &c20Plain{vfInt("s")}
		return s, *s
	case 7:
		l := []int{1}
		return l, l
	case 8:
		d := NewCompData(sumT, 1, "x")
		return *d, *d
	case 9:
		d := NewCompData(sumT, 1, "x")
		return d, *d
	default:
		f := 1.5
		return f, f
	}
}

func c20KindOf(v interface{}) reflect.Kind {
	switch v.(type) {
	case int:
		return reflect.Int
	case string:
		return reflect.String
	case float64:
		return reflect.Float64
	case *int:
		return reflect.Ptr
	case []int:
		return reflect.Slice
	case c20Plain, CompData:
		return reflect.Struct
	}
	return reflect.Invalid
}

// c20Accepts: independent reference for "pattern kind pk accepts the tested value".
func c20Accepts(pk int, tested interface{}, eqConst int) bool {
	return c20AcceptsEq(pk, tested, eqConst, 0)
}

// eqKind: what the equality pattern holds - 0: the int eqConst, 1: nil, 2: a nil *int, 3: the string "abc"
func c20AcceptsEq(pk int, tested interface{}, eqConst int, eqKind int) bool {
	absent := tested == nil
	if p, ok := tested.(*int); ok && p == nil {
		absent = true
	}
	switch pk {
	case 0: // InCaseOfKind(reflect.String)
		return !absent && c20KindOf(tested) == reflect.String
	case 1: // InCaseOfSumType(DefSum(product(Int,String), NilType))
		if cd, ok := tested.(CompData); ok {
			return len(cd.objects) == 2 // the only CompData probes are (int, string) products
		}
		return absent // a single value matches the sum only through NilType
	case 2: // InCaseOfEqual(...): plain == on the two interface values
		switch eqKind {
		case 1:
			return tested == nil
		case 2:
			p, ok := tested.(*int)
			return ok && p == nil
		case 3:
			s, ok := tested.(string)
			return ok && s == "abc"
		}
		i, ok := tested.(int)
		return ok && i == eqConst
	case 3: // InCaseOfRegex
		s, ok := tested.(string)
		return ok && s == "123"
	default: // Otherwise
		return true
	}
}

func vh_C20_MatchFor() {
	sumT := DefSum(DefProduct(reflect.Int, reflect.String), NilType)
	eqConst := vfInt("eq")
	// an ordered subset of the five pattern kinds
	n := vfRange("patterns", 0, 3+2*vfTier())
	used := [5]bool{}
	eqKind := 0
	var kinds []int
	var pats []Pattern
	for i := 0; i < n; i++ {
		pk := vfChoose("kind", 5)
		if used[pk] {
			vfAssume(false)
		}
		used[pk] = true
		kinds = append(kinds, pk)
		idx := i
		eff := func(v interface{}) interface{} { return c20Hit{idx, v} }
		switch pk {
		case 0:
			pats = append(pats, InCaseOfKind(reflect.String, eff))
		case 1:
			pats = append(pats, InCaseOfSumType(sumT, eff))
		case 2:
			// the equality pattern holds a comparable value: a number, nil, a typed nil pointer or a string
			eqKind = vfChoose("equal-holds", 4)
			pats = append(pats, InCaseOfEqual([]interface{}{eqConst, nil, (*int)(nil), "abc"}[eqKind], eff))
		case 3:
			pats = append(pats, InCaseOfRegex(c20Regex, eff))
		default:
			pats = append(pats, Otherwise(eff))
		}
	}
	probe, tested := c20Probe(vfChoose("probe", 11), sumT)
	want := -1
	for i, pk := range kinds {
		if c20AcceptsEq(pk, tested, eqConst, eqKind) {
			want = i
			break
		}
	}
	var got interface{}
	panicked := vfPanics(func() {
		if vfChoose("entry", 2) == 0 {
			got = DefPattern(pats...).MatchFor(probe)
		} else {
			got = Either(probe, pats...)
		}
	})
	if want < 0 {
		vfAssert("panics-when-none-accepts", panicked)
	} else {
		vfAssert("no-panic-when-some-pattern-accepts", !panicked)
		if !panicked {
			h, ok := got.(c20Hit)
			vfAssert("effect-result", ok)
			if ok {
				vfAssert("first-match", h.I == want)
			}
		}
	}
	vfReach("end")
}

func vh_C20_CompData() {
	kinds := []reflect.Kind{reflect.Int, reflect.String, reflect.Bool}
	k1, k2 := kinds[vfChoose("k1", 3)], kinds[vfChoose("k2", 3)]
	prod := DefProduct(k1, k2)
	vals := []interface{}{vfInt("i"), "s", vfBool("b")}
	nargs := vfRange("nargs", 0, 3)
	var args []interface{}
	var argKinds []reflect.Kind
	for i := 0; i < nargs; i++ {
		j := vfChoose("arg", 3)
		args = append(args, vals[j])
		argKinds = append(argKinds, kinds[j])
	}
	matches := nargs == 2 && argKinds[0] == k1 && argKinds[1] == k2
	ok := vfNoPanic("nopanic", func() {
		d := NewCompData(prod, args...)
		vfAssert("product", (d != nil) == matches)
		sum := DefSum(prod, NilType)
		ds := NewCompData(sum, args...)
		vfAssert("sum", (ds != nil) == matches)
		dn := NewCompData(sum, nil)
		vfAssert("sum-nil", dn != nil)
		vfAssert("niltype-rejects-value", NewCompData(NilType, 1) == nil)
		if d != nil {
			vfAssert("match-comptype", MatchCompType(prod, *d))
			vfAssert("match-comptype-ref", MatchCompTypeRef(sum, d))
			vfAssert("match-other-product", MatchCompType(DefProduct(reflect.Bool), *d) == false)
		}
	})
	if ok {
		vfReach("end")
	}
}

// concurrent Calls racing with MarkDone: once a Call's function has marked the curry done, no later Call may invoke the
// function again or change Result, however the Calls interleave
func vh_C20_CurryDefConcurrentMarkDone() {
	var mu sync.Mutex
	invocations := 0
	var firstSeen []int
	c := CurryNewGenerics(func(c *CurryDef[int, int], args ...int) int {
		mu.Lock()
		invocations++
		if invocations == 1 {
			firstSeen = append([]int{}, args...)
		}
		mu.Unlock()
		c.MarkDone() // done after the first invocation
		return len(args)
	})
	a, b := vfInt("a"), vfInt("b")
	vfAssume(a != b)
	var wg sync.WaitGroup
	wg.Add(2)
	go func() { c.Call(a); wg.Done() }()
	go func() { c.Call(b); wg.Done() }()
	wg.Wait()
	vfAssert("function-invoked-once-then-frozen", invocations == 1)
	vfAssert("isdone", c.IsDone())
	vfAssert("result-frozen", c.Result() == 1)
	vfAssert("first-call-saw-one-argument", len(firstSeen) == 1)
	c.Call(vfInt("late"))
	vfAssert("later-call-is-a-no-op", invocations == 1 && c.Result() == 1)
	vfReach("end")
}

// CurryNew (the interface{} constructor) accumulates arguments like CurryNewGenerics
func vh_C20_CurryNew() {
	x, y := vfInt("x"), vfInt("y")
	calls := 0
	var lastArgs []interface{}
	c := CurryNew(func(c *CurryDef[interface{}, interface{}], args ...interface{}) interface{} {
		calls++
		lastArgs = append([]interface{}{}, args...)
		if len(args) >= 2 {
			c.MarkDone()
		}
		return len(args)
	})
	vfNoPanic("nopanic", func() { c.Call(x); c.Call(y); c.Call(x) })
	vfAssert("invoked-once-per-call", calls == 2)
	vfAssert("sees-all-args-so-far", len(lastArgs) == 2 && lastArgs[0] == interface{}(x) && lastArgs[1] == interface{}(y))
	vfAssert("isdone", c.IsDone())
	vfAssert("frozen-result", c.Result() == interface{}(2))
	vfReach("end")
}
