package fpgo

// C04: Stream / Set / StreamSet operations are persistent. One INDUCTIVE STEP per harness: from an arbitrary
// separated state (distinct live collections never share a backing array or map; contents, lengths, spare capacity
// symbolic) one operation with a symbolic op code is run; obligations: (i) the result holds what the sequence/map
// definition prescribes, (ii) every pre-existing cell still holds what it held (vfUnchanged over receiver, arguments
// and a bystander collection), (iii) separation is re-established: the result is an already-live object or owns
// fresh storage. By induction this covers programs of any length within the size bounds (len <= 3, spare <= 1).

func c04Len() int { return 2 + vfTier() }

func c04P(v, i int) bool { return vfPred("P", v, i) }
func c04F(v, i int) int  { return vfFn("F", v, i) }

var c04StreamOps = []string{"Map", "Filter", "Reject", "FilterNotNil", "Distinct", "Append", "Concat", "Concat0", "Extend", "Extend0",
	"ExtendSelf", "ExtendNil", "Remove", "RemoveItem", "RemoveItem0", "Reverse", "Sort", "Minus", "MinusNil", "MinusSelf",
	"Intersection", "IntersectionNil", "Clone"}

func vh_C04_Stream() {
	vfSetMapOrder(2)
	a := vfIntList("a", c04Len(), 1)
	b := vfIntList("b", 2, 1)
	by := vfIntList("bystander", 1, 0)
	s, o, z := StreamFromArray(a), StreamFromArray(b), StreamFromArray(by)
	oldA := append([]int{}, a...)
	op := c04StreamOps[vfChoose("op", len(c04StreamOps))]
	idx := vfIntIn("idx", -1, len(a)+1)
	x := vfInt("x")
	snap := vfSnapshot(s, o, z)
	var r *StreamDef[int]
	var want []int
	mayBeReceiver := false
	ok := vfNoPanic(op+"/nopanic", func() {
		switch op {
		case "Map":
			r = s.Map(c04F)
			for i, v := range a {
				want = append(want, c04F(v, i))
			}
		case "Filter":
			r = s.Filter(c04P)
			want = ref03Filter(c04P, a)
		case "Reject":
			r = s.Reject(c04P)
			want = ref03Filter(func(v, i int) bool { return !c04P(v, i) }, a)
		case "FilterNotNil":
			r = s.FilterNotNil()
			want = a
		case "Distinct":
			r = s.Distinct()
			want = ref03Distinct(a)
		case "Append":
			r = s.Append(x)
			want = append(append([]int{}, a...), x)
		case "Concat":
			r = s.Concat(b, []int{x})
			want = append(append(append([]int{}, a...), b...), x)
		case "Concat0":
			r = s.Concat()
			want, mayBeReceiver = a, true
		case "Extend":
			r = s.Extend(o, z)
			want = append(append(append([]int{}, a...), b...), by...)
		case "Extend0":
			r = s.Extend()
			want, mayBeReceiver = a, true
		case "ExtendSelf":
			r = s.Extend(s)
			want = append(append([]int{}, a...), a...)
		case "ExtendNil":
			r = s.Extend(nil, o)
			want = append(append([]int{}, a...), b...)
		case "Remove":
			r = s.Remove(idx)
			if idx >= 0 && idx < len(a) {
				i := vfConcrete(idx)
				want = append(append([]int{}, a[:i]...), a[i+1:]...)
			} else {
				want, mayBeReceiver = a, true
			}
		case "RemoveItem":
			r = s.RemoveItem(x)
			want = ref03Filter(func(v, i int) bool { return v != x }, a)
		case "RemoveItem0":
			r = s.RemoveItem()
			want, mayBeReceiver = a, true
		case "Reverse":
			r = s.Reverse()
			for i := len(a) - 1; i >= 0; i-- {
				want = append(want, a[i])
			}
		case "Sort":
			r = s.Sort(func(p, q int) bool { return p < q })
			want = nil // checked below as ordered permutation
		case "Minus":
			r = s.Minus(o)
			if len(b) == 0 {
				want, mayBeReceiver = a, true
			} else {
				want = ref03Filter(func(v, i int) bool { return !vfMember(b, v) }, a)
			}
		case "MinusNil":
			r = s.Minus(nil)
			want, mayBeReceiver = a, true
		case "MinusSelf":
			r = s.Minus(s)
			if len(a) == 0 {
				want, mayBeReceiver = a, true
			}
		case "Intersection":
			r = s.Intersection(o)
			if len(b) > 0 {
				want = ref05InterOrdered(a, b)
			}
		case "IntersectionNil":
			r = s.Intersection(nil)
		case "Clone":
			r = s.Clone()
			want = a
		}
	})
	if !ok {
		return
	}
	vfAssert(op+"/non-nil-result", r != nil)
	if r == nil {
		return
	}
	if op == "Sort" {
		vfAssert(op+"/result", vfSameMultiset([]int(*r), a))
		ord := true
		for i := 0; i+1 < len(*r); i++ {
			ord = vfAnd(ord, (*r)[i] <= (*r)[i+1])
		}
		vfAssert(op+"/ordered", ord)
	} else {
		vfAssert(op+"/result", vfSliceEq([]int(*r), want))
	}
	vfUnchanged(op+"/existing-collections-unchanged", snap)
	vfAssert(op+"/receiver-still-shows-its-elements", vfSliceEq([]int(*s), oldA))
	fresh := vfAnd(!vfSameStorage(r, s), vfAnd(!vfSameStorage(r, o), !vfSameStorage(r, z)))
	if mayBeReceiver {
		vfAssert("lemma/"+op+"/fresh-or-receiver", vfOr(r == s, fresh))
	} else {
		vfAssert("lemma/"+op+"/fresh", vfOr(fresh, len(*r) == 0 && cap(*r) == 0))
	}
	// a second step through the public API: SortByIndex sorts the backing array of the stream it is called on in
	// place; called on the RESULT (when that is a different object) it must not reach receiver, argument or bystander
	if r != s && r != o && r != z && len(*r) >= 2 && len(*r) <= 3 {
		if !vfPanics(func() { r.SortByIndex(func(i, j int) bool { return (*r)[i] > (*r)[j] }) }) {
			vfUnchanged(op+"/sorting-the-result-leaves-existing-collections-unchanged", snap)
		}
	}
	vfReach("end")
}

// SortByIndex is the one generic-stream operation that writes the backing array of the stream it is called on. After an
// operation that returns a SHORTER stream (which could be a re-sliced view of the receiver), sorting either object in
// place must not change the other. Receiver of length 3, every index / symbolic predicate.
func vh_C04_StreamShrinkThenSort() {
	a := vfIntList("a", 3, 0)
	vfAssume(len(a) == 3)
	b := vfIntList("b", 1, 0)
	s, o := StreamFromArray(a), StreamFromArray(b)
	ops := []string{"Remove", "Filter", "Reject", "RemoveItem", "Minus", "Intersection", "Distinct"}
	op := ops[vfChoose("op", len(ops))]
	var r *StreamDef[int]
	if !vfNoPanic(op+"/nopanic", func() {
		switch op {
		case "Remove":
			r = s.Remove(vfRange("idx", 0, 2))
		case "Filter":
			r = s.Filter(c04P)
		case "Reject":
			r = s.Reject(c04P)
		case "RemoveItem":
			r = s.RemoveItem(vfInt("x"))
		case "Minus":
			r = s.Minus(o)
		case "Intersection":
			r = s.Intersection(o)
		default:
			r = s.Distinct()
		}
	}) || r == nil || r == s {
		vfReach("end")
		return
	}
	if vfChoose("sort-which", 2) == 0 {
		if len(*r) < 2 {
			vfReach("end")
			return
		}
		snap := vfSnapshot(s, o)
		if !vfPanics(func() { r.SortByIndex(func(i, j int) bool { return (*r)[i] > (*r)[j] }) }) {
			vfUnchanged(op+"/sorting-the-result-leaves-existing-collections-unchanged", snap)
		}
	} else {
		snap := vfSnapshot(r)
		if !vfPanics(func() { s.SortByIndex(func(i, j int) bool { return (*s)[i] > (*s)[j] }) }) {
			vfUnchanged(op+"/sorting-the-receiver-leaves-the-earlier-result-unchanged", snap)
		}
	}
	vfReach("end")
}

func vh_C04_StreamSortByIndex() {
	a := vfIntList("a", c04Len()+1, 1)
	by := vfIntList("bystander", 1, 0)
	s, z := StreamFromArray(a), StreamFromArray(by)
	oldA := append([]int{}, a...)
	snapZ := vfSnapshot(z)
	var r *StreamDef[int]
	if !vfNoPanic("nopanic", func() { r = s.SortByIndex(func(i, j int) bool { return a[i] < a[j] }) }) {
		return
	}
	vfAssert("result-permutation", vfSameMultiset([]int(*r), oldA))
	ord := true
	for i := 0; i+1 < len(*r); i++ {
		ord = vfAnd(ord, (*r)[i] <= (*r)[i+1])
	}
	vfAssert("result-ordered", ord)
	// the receiver's header may be re-pointed at a copy, but it must still SHOW the old elements
	vfAssert("receiver-still-shows-its-elements", vfSliceEq([]int(*s), oldA))
	vfAssert("lemma/separated", !vfSameStorage(r, s))
	vfUnchanged("bystander-unchanged", snapZ)
	// sorting the receiver AGAIN, the other way round, leaves the earlier result holding exactly what it held
	if r != s {
		before := append([]int{}, (*r)...)
		if !vfPanics(func() { s.SortByIndex(func(i, j int) bool { return (*s)[i] > (*s)[j] }) }) {
			vfAssert("earlier-result-unchanged-by-later-operation-on-receiver", vfSliceEq([]int(*r), before))
		}
	}
	vfReach("end")
}

func vh_C04_StreamObservers() {
	a := vfIntList("a", c04Len()+1, 1)
	s := StreamFromArray(a)
	x := vfInt("x")
	snap := vfSnapshot(s)
	ok := vfNoPanic("nopanic", func() {
		vfAssert("len", s.Len() == len(a))
		for i := range a {
			vfAssert("get", s.Get(i) == a[i])
		}
		vfAssert("contains", s.Contains(x) == vfMember(a, x))
		arr := s.ToArray()
		vfAssert("toarray", vfSliceEq(arr, a))
		vfAssert("toarray-detached", !vfSameStorage(arr, s))
		if len(arr) > 0 {
			arr[0] = x + 1
			vfAssert("toarray-write-does-not-reach-stream", s.Get(0) == a[0])
		}
	})
	vfUnchanged("unchanged", snap)
	idx := vfIntIn("idx", -2, len(a)+1)
	outOfRange := vfPanics(func() { _ = s.Get(idx) })
	vfAssert("get-out-of-range-panics-only-then", outOfRange == (idx < 0 || idx >= len(a)))
	if ok {
		vfReach("end")
	}
}

// ---------- interface{} family ----------

var c04IStreamOps = []string{"Map", "Filter", "Reject", "FilterNotNil", "Distinct", "Append", "Concat", "Concat0", "Extend", "Extend0",
	"ExtendSelf", "RemoveItem", "RemoveItem0", "Reverse", "Sort", "SortByIndex", "Minus", "MinusNil", "Intersection", "IntersectionNil", "Clone"}

func c04Unbox(s *StreamForInterfaceDef) []int {
	r, ok := c05Unbox([]interface{}(*s))
	vfAssert("element-types", ok)
	return r
}

func vh_C04_StreamForInterface() {
	vfSetMapOrder(2)
	a := vfIntList("a", c04Len(), 1)
	b := vfIntList("b", 2, 1)
	ba := c05Box(a[:cap(a)])[:len(a)]
	bb := c05Box(b)
	s, o := StreamForInterface.FromArray(ba), StreamForInterface.FromArray(bb)
	op := c04IStreamOps[vfChoose("op", len(c04IStreamOps))]
	x := vfInt("x")
	snap := vfSnapshot(s, o)
	var r *StreamForInterfaceDef
	var want []int
	mayBeReceiver := false
	pi := func(v interface{}, i int) bool { return c04P(v.(int), i) }
	ok := vfNoPanic(op+"/nopanic", func() {
		switch op {
		case "Map":
			r = s.Map(func(v interface{}, i int) interface{} { return c04F(v.(int), i) })
			for i, v := range a {
				want = append(want, c04F(v, i))
			}
		case "Filter":
			r = s.Filter(pi)
			want = ref03Filter(c04P, a)
		case "Reject":
			r = s.Reject(pi)
			want = ref03Filter(func(v, i int) bool { return !c04P(v, i) }, a)
		case "FilterNotNil":
			r = s.FilterNotNil()
			want = a
		case "Distinct":
			r = s.Distinct()
			want = ref03Distinct(a)
		case "Append":
			r = s.Append(x)
			want = append(append([]int{}, a...), x)
		case "Concat":
			r = s.Concat(bb, []interface{}{x})
			want = append(append(append([]int{}, a...), b...), x)
		case "Concat0":
			r = s.Concat()
			want, mayBeReceiver = a, true
		case "Extend":
			r = s.Extend(o)
			want = append(append([]int{}, a...), b...)
		case "Extend0":
			r = s.Extend()
			want, mayBeReceiver = a, true
		case "ExtendSelf":
			r = s.Extend(s, nil)
			want = append(append([]int{}, a...), a...)
		case "RemoveItem":
			r = s.RemoveItem(x)
			want = ref03Filter(func(v, i int) bool { return v != x }, a)
		case "RemoveItem0":
			r = s.RemoveItem()
			want, mayBeReceiver = a, true
		case "Reverse":
			r = s.Reverse()
			for i := len(a) - 1; i >= 0; i-- {
				want = append(want, a[i])
			}
		case "Sort":
			r = s.Sort(func(p, q interface{}) bool { return p.(int) < q.(int) })
		case "SortByIndex":
			r = s.SortByIndex(func(i, j int) bool { return ba[i].(int) < ba[j].(int) })
		case "Minus":
			r = s.Minus(o)
			if len(b) == 0 {
				want, mayBeReceiver = a, true
			} else {
				want = ref03Filter(func(v, i int) bool { return !vfMember(b, v) }, a)
			}
		case "MinusNil":
			r = s.Minus(nil)
			want, mayBeReceiver = a, true
		case "Intersection":
			r = s.Intersection(o)
			if len(b) > 0 {
				want = ref05InterOrdered(a, b)
			}
		case "IntersectionNil":
			r = s.Intersection(nil)
		case "Clone":
			r = s.Clone()
			want = a
		}
	})
	if !ok {
		return
	}
	vfAssert(op+"/non-nil-result", r != nil)
	if r == nil {
		return
	}
	got := c04Unbox(r)
	if op == "Sort" || op == "SortByIndex" {
		vfAssert(op+"/result", vfSameMultiset(got, a))
		ord := true
		for i := 0; i+1 < len(got); i++ {
			ord = vfAnd(ord, got[i] <= got[i+1])
		}
		vfAssert(op+"/ordered", ord)
	} else {
		vfAssert(op+"/result", vfSliceEq(got, want))
	}
	if op == "SortByIndex" {
		vfAssert(op+"/receiver-still-shows-its-elements", vfSliceEq(c04Unbox(s), a))
		vfAssert("lemma/"+op+"/separated", !vfSameStorage(r, s))
		// a second step through the public API on the RECEIVER - the documented in-place mutator, or sorting it again the
		// other way round - leaves the earlier result holding exactly what it held
		if r != s {
			before := c04Unbox(r)
			second := vfChoose("then-on-receiver", 2)
			if !vfPanics(func() {
				if second == 0 {
					s.Remove(0)
				} else {
					s.SortByIndex(func(i, j int) bool { return (*s)[i].(int) > (*s)[j].(int) })
				}
			}) {
				vfAssert(op+"/earlier-result-unchanged-by-later-operation-on-receiver", vfSliceEq(c04Unbox(r), before))
			}
		}
	} else {
		vfUnchanged(op+"/existing-collections-unchanged", snap)
		fresh := vfAnd(!vfSameStorage(r, s), !vfSameStorage(r, o))
		if mayBeReceiver {
			vfAssert("lemma/"+op+"/fresh-or-receiver", vfOr(r == s, fresh))
		} else {
			vfAssert("lemma/"+op+"/fresh", vfOr(fresh, len(*r) == 0 && cap(*r) == 0))
		}
		// a second step through the public API: the documented in-place mutator (Remove) and an Append on the RESULT,
		// when the result is a different object, must not reach the receiver or the argument
		if r != s && r != o {
			if !vfPanics(func() { r.Remove(0); r.Append(x) }) { // a panic here (e.g. Set on the nil map behind an empty Intersection) is outside what C04 states
				vfUnchanged(op+"/mutating-the-result-leaves-existing-collections-unchanged", snap)
			}
		}
	}
	vfReach("end")
}

// Remove on the interface{} stream is the documented in-place mutator: receiver == returned stream == spec.
func vh_C04_StreamForInterfaceRemove() {
	a := vfIntList("a", c04Len()+1, 1)
	by := vfIntList("bystander", 1, 0)
	s, z := StreamForInterface.FromArray(c05Box(a)), StreamForInterface.FromArray(c05Box(by))
	idx := vfIntIn("idx", -1, len(a)+1)
	snapZ := vfSnapshot(z)
	var r *StreamForInterfaceDef
	if !vfNoPanic("nopanic", func() { r = s.Remove(idx) }) {
		return
	}
	want := a
	if idx >= 0 && idx < len(a) {
		i := vfConcrete(idx)
		want = append(append([]int{}, a[:i]...), a[i+1:]...)
	}
	vfAssert("returns-receiver", r == s)
	vfAssert("receiver-is-spec", vfSliceEq(c04Unbox(s), want))
	vfUnchanged("bystander-unchanged", snapZ)
	vfReach("end")
}

// ---------- MapSet / SetForInterface ----------

var c04SetOps = []string{"MapKey", "MapValue", "Add", "Add0", "RemoveKeys", "RemoveKeys0", "RemoveValues", "RemoveValues0", "Clone",
	"Union", "UnionEmpty", "UnionSelf", "Intersection", "IntersectionEmpty", "Minus", "MinusEmpty", "MinusSelf"}

func vh_C04_MapSet() {
	vfSetMapOrder(3)
	ma := vfIntMap("a", 2)
	mb := vfIntMap("b", 2)
	if ma == nil {
		ma = map[int]int{}
	}
	if mb == nil {
		mb = map[int]int{}
	}
	s, o := SetFromMap(ma), SetFromMap(mb)
	op := c04SetOps[vfChoose("op", len(c04SetOps))]
	x, y := vfInt("x"), vfInt("y")
	probe := vfInt("probe")
	snap := vfSnapshot(s, o)
	_, inA := ma[probe]
	_, inB := mb[probe]
	av := ma[probe]
	bv := mb[probe]
	var r SetDef[int, int]
	mayBeReceiver := false
	var wantHas bool
	wantVal, checkVal := 0, false
	ok := vfNoPanic(op+"/nopanic", func() {
		switch op {
		case "MapKey":
			// injective-enough key map: fn(k) = k + x
			r = s.MapKey(func(k int) int { return k + x })
			_, wantHas = ma[probe-x]
			wantVal, checkVal = ma[probe-x], true
		case "MapValue":
			r = s.MapValue(func(v int) int { return vfFn("G", v) })
			wantHas, wantVal, checkVal = inA, vfFn("G", av), true
		case "Add":
			r = s.Add(x, y)
			wantHas = vfOr(inA, vfOr(probe == x, probe == y))
			wantVal, checkVal = vfIte(inA, av, 0), true
		case "Add0":
			r = s.Add()
			wantHas, mayBeReceiver = inA, true
		case "RemoveKeys":
			r = s.RemoveKeys(x, y)
			wantHas = vfAnd(inA, vfAnd(probe != x, probe != y))
		case "RemoveKeys0":
			r = s.RemoveKeys()
			wantHas, mayBeReceiver = inA, true
		case "RemoveValues":
			r = s.RemoveValues(x)
			wantHas = vfAnd(inA, av != x)
		case "RemoveValues0":
			r = s.RemoveValues()
			wantHas, mayBeReceiver = inA, true
		case "Clone":
			r = s.Clone()
			wantHas, wantVal, checkVal = inA, av, true
		case "Union":
			r = s.Union(o)
			wantHas = vfOr(inA, inB)
			wantVal, checkVal = vfIte(inB, bv, av), true
			mayBeReceiver = len(mb) == 0
		case "UnionEmpty":
			r = s.Union(nil)
			wantHas, mayBeReceiver = inA, true
		case "UnionSelf":
			r = s.Union(s)
			wantHas, mayBeReceiver = inA, len(ma) == 0
		case "Intersection":
			r = s.Intersection(o)
			wantHas = vfAnd(inA, inB)
		case "IntersectionEmpty":
			r = s.Intersection(nil)
			wantHas = false
		case "Minus":
			r = s.Minus(o)
			wantHas = vfAnd(inA, !inB)
			mayBeReceiver = len(mb) == 0
		case "MinusEmpty":
			r = s.Minus(nil)
			wantHas, mayBeReceiver = inA, true
		case "MinusSelf":
			r = s.Minus(s)
			wantHas, mayBeReceiver = false, len(ma) == 0
		}
	})
	if !ok {
		return
	}
	vfAssert(op+"/non-nil-result", r != nil)
	if r == nil {
		return
	}
	vfAssert(op+"/membership", r.ContainsKey(probe) == wantHas)
	if checkVal {
		vfAssert(op+"/value", vfImplies(wantHas, r.Get(probe) == wantVal))
	}
	vfUnchanged(op+"/existing-collections-unchanged", snap)
	fresh := vfAnd(!vfSameStorage(r.AsMap(), ma), !vfSameStorage(r.AsMap(), mb))
	if mayBeReceiver {
		vfAssert("lemma/"+op+"/fresh-or-receiver", vfOr(r.AsMapSet() == s, fresh))
	} else {
		vfAssert("lemma/"+op+"/fresh", fresh)
	}
	// observers agree with the map
	vfAssert(op+"/size", r.Size() == len(r.AsMap()))
	vfAssert(op+"/keys", vfSameMultiset(r.Keys(), Keys(r.AsMap())))
	// a second step through the public API: the documented in-place mutator applied to the RESULT (when the result is
	// a different object) must not reach the receiver or the argument
	if r.AsMapSet() != s && r.AsMapSet() != o {
		k2, v2 := vfInt("k2"), vfInt("v2")
		if !vfPanics(func() { r.Set(k2, v2) }) { // a panic here (e.g. Set on the nil map behind an empty Intersection) is outside what C04 states
			vfUnchanged(op+"/set-on-result-leaves-existing-collections-unchanged", snap)
		}
	}
	vfReach("end")
}

// Set is the documented mutator of a set: exactly that key changes.
func vh_C04_MapSetSet() {
	vfSetMapOrder(2)
	ma := vfIntMap("a", 2)
	if ma == nil {
		ma = map[int]int{}
	}
	s := SetFromMap(ma)
	c := s.Clone()
	k, v, probe := vfInt("k"), vfInt("v"), vfInt("probe")
	oldV, oldHas := ma[probe]
	snapC := vfSnapshot(c)
	if !vfNoPanic("nopanic", func() { s.Set(k, v) }) {
		return
	}
	vfAssert("set-key", vfAnd(s.ContainsKey(k), s.Get(k) == v))
	vfAssert("other-keys-untouched", vfImplies(probe != k, vfAnd(s.ContainsKey(probe) == oldHas, s.Get(probe) == oldV)))
	vfUnchanged("earlier-clone-unchanged", snapC)
	vfReach("end")
}

func vh_C04_SetForInterface() {
	vfSetMapOrder(3)
	a := vfIntList("a", 2, 0)
	b := vfIntList("b", 2, 0)
	s, o := SetForInterfaceFromArray(c05Box(a)), SetForInterfaceFromArray(c05Box(b))
	ops := []string{"MapKey", "MapValue", "Add", "Add0", "RemoveKeys", "RemoveKeys0", "Clone", "Union", "UnionNil", "Intersection", "IntersectionNil", "Minus", "MinusNil",
		"RemoveValues", "RemoveValuesNil", "RemoveValues0"}
	op := ops[vfChoose("op", len(ops))]
	x, probe := vfInt("x"), vfInt("probe")
	inA, inB := vfMember(a, probe), vfMember(b, probe)
	snap := vfSnapshot(s, o)
	var r *SetForInterfaceDef
	mayBeReceiver := false
	var wantHas bool
	ok := vfNoPanic(op+"/nopanic", func() {
		switch op {
		case "MapKey":
			r = s.MapKey(func(k interface{}) interface{} { return k.(int) + x })
			wantHas = vfMember(a, probe-x)
		case "MapValue":
			r = s.MapValue(func(v interface{}) interface{} { return 1 })
			wantHas = inA
		case "Add":
			r = s.Add(x)
			wantHas = vfOr(inA, probe == x)
		case "Add0":
			r = s.Add()
			wantHas, mayBeReceiver = inA, true
		case "RemoveKeys":
			r = s.RemoveKeys(x)
			wantHas = vfAnd(inA, probe != x)
		case "RemoveKeys0":
			r = s.RemoveKeys()
			wantHas, mayBeReceiver = inA, true
		case "Clone":
			r = s.Clone()
			wantHas = inA
		case "Union":
			r = s.Union(o)
			wantHas, mayBeReceiver = vfOr(inA, inB), len(b) == 0
		case "UnionNil":
			r = s.Union(nil)
			wantHas, mayBeReceiver = inA, true
		case "Intersection":
			r = s.Intersection(o)
			wantHas = vfAnd(inA, inB)
		case "IntersectionNil":
			r = s.Intersection(nil)
			wantHas = false
		case "Minus":
			r = s.Minus(o)
			wantHas, mayBeReceiver = vfAnd(inA, !inB), len(b) == 0
		case "MinusNil":
			r = s.Minus(nil)
			wantHas, mayBeReceiver = inA, true
		case "RemoveValues": // every value of a set built from keys is nil: no entry holds x
			r = s.RemoveValues(x)
			wantHas = inA
		case "RemoveValuesNil": // ... and every entry holds nil
			r = s.RemoveValues(nil)
			wantHas = false
		case "RemoveValues0":
			r = s.RemoveValues()
			wantHas, mayBeReceiver = inA, true
		}
	})
	if !ok {
		return
	}
	vfAssert(op+"/non-nil-result", r != nil)
	if r == nil {
		return
	}
	vfAssert(op+"/membership", r.ContainsKey(probe) == wantHas)
	vfUnchanged(op+"/existing-collections-unchanged", snap)
	fresh := vfAnd(!vfSameStorage(r, s), !vfSameStorage(r, o))
	if mayBeReceiver {
		vfAssert("lemma/"+op+"/fresh-or-receiver", vfOr(r == s, fresh))
	} else {
		vfAssert("lemma/"+op+"/fresh", fresh)
	}
	if r != s && r != o {
		k2 := vfInt("k2")
		if !vfPanics(func() { r.Set(k2, k2) }) { // a panic here (e.g. Set on the nil map behind an empty Intersection) is outside what C04 states
			vfUnchanged(op+"/set-on-result-leaves-existing-collections-unchanged", snap)
		}
	}
	vfReach("end")
}

// ---------- StreamSet (both families): receiver, argument and all their streams survive every operation ----------

func vh_C04_StreamSet() {
	vfSetMapOrder(3)
	ga, ta, _ := c05StreamSetsN("a", false, 2, 1)
	gb, tb, _ := c05StreamSetsN("b", false, 2, 1)
	ops := []string{"Clone", "Union", "Intersection", "MinusStreams", "Minus"}
	op := ops[vfChoose("op", len(ops))]
	generic := vfChoose("family", 2) == 0
	snap := vfSnapshot(ga, gb, ta, tb)
	var rg *StreamSetDef[int, int]
	var rt *StreamSetForInterfaceDef
	ok := vfNoPanic(op+"/nopanic", func() {
		if generic {
			switch op {
			case "Clone":
				rg = ga.Clone()
			case "Union":
				rg = ga.Union(gb)
			case "Intersection":
				rg = ga.Intersection(gb)
			case "MinusStreams":
				rg = ga.MinusStreams(gb)
			case "Minus":
				m := ga.Minus(&gb.MapSetDef)
				if m.AsMapSet() == &ga.MapSetDef {
					rg = ga // the receiver itself (allowed)
				} else {
					rg = c05AsStreamSet(m)
				}
			}
		} else {
			switch op {
			case "Clone":
				rt = ta.Clone()
			case "Union":
				rt = ta.Union(tb)
			case "Intersection":
				rt = ta.Intersection(tb)
			case "MinusStreams":
				rt = ta.MinusStreams(tb)
			case "Minus":
				rt = ta.Minus(tb)
			}
		}
	})
	if !ok {
		return
	}
	vfUnchanged(op+"/existing-collections-unchanged", snap)
	if generic {
		vfAssert(op+"/non-nil-result", rg != nil)
		if rg != nil && rg != ga {
			vfAssert("lemma/"+op+"/own-map", vfAnd(!vfSameStorage(rg.MapSetDef, ga.MapSetDef), !vfSameStorage(rg.MapSetDef, gb.MapSetDef)))
		}
		if op == "Clone" && rg != nil {
			for k, st := range rg.MapSetDef {
				if st != nil && ga.MapSetDef[k] != nil {
					vfAssert("lemma/Clone/streams-cloned", vfOr(st.Len() == 0, !vfSameStorage(st, ga.MapSetDef[k])))
				}
			}
		}
		if rg != nil && rg != ga && rg != gb {
			k2 := vfInt("k2")
			if !vfPanics(func() { rg.Set(k2, StreamFromArray([]int{k2})) }) { // a panic here (e.g. Set on the nil map behind an empty Intersection) is outside what C04 states
				vfUnchanged(op+"/set-on-result-leaves-existing-collections-unchanged", snap)
			}
		}
	} else {
		vfAssert(op+"/non-nil-result", rt != nil)
		if rt != nil && rt != ta {
			vfAssert("lemma/"+op+"/own-map", vfAnd(!vfSameStorage(rt.SetForInterfaceDef, ta.SetForInterfaceDef), !vfSameStorage(rt.SetForInterfaceDef, tb.SetForInterfaceDef)))
		}
		if rt != nil && rt != ta && rt != tb {
			k2 := vfInt("k2")
			if !vfPanics(func() { rt.Set(k2, StreamForInterface.FromArray(c05Box([]int{k2}))) }) { // a panic here (e.g. Set on the nil map behind an empty Intersection) is outside what C04 states
				vfUnchanged(op+"/set-on-result-leaves-existing-collections-unchanged", snap)
			}
		}
	}
	vfReach("end")
}

// ---------- two-operation programs (cross-check that the separated pre-states above are reachable and sufficient) ----------

func vh_C04_TwoOps() {
	vfSetMapOrder(2)
	a := vfIntList("a", 2, 0)
	x := vfInt("x")
	s0 := StreamFromArray(append([]int{}, a...))
	var s1, s2 *StreamDef[int]
	ops := []string{"Append", "Remove", "Reverse", "Filter", "Extend", "Distinct", "Sort"}
	apply := func(op string, s *StreamDef[int], other *StreamDef[int]) *StreamDef[int] {
		switch op {
		case "Append":
			return s.Append(x)
		case "Remove":
			return s.Remove(0)
		case "Reverse":
			return s.Reverse()
		case "Filter":
			return s.Filter(c04P)
		case "Extend":
			return s.Extend(other)
		case "Distinct":
			return s.Distinct()
		default:
			return s.Sort(func(p, q int) bool { return p < q })
		}
	}
	op1 := ops[vfChoose("op1", len(ops))]
	op2 := ops[vfChoose("op2", len(ops))]
	var mid []int
	ok := vfNoPanic("nopanic", func() {
		s1 = apply(op1, s0, s0)
		mid = append([]int{}, []int(*s1)...)
		recv := s0
		if vfChoose("second-on", 2) == 1 {
			recv = s1
		}
		s2 = apply(op2, recv, s1)
	})
	if !ok {
		return
	}
	_ = s2
	vfAssert(op1+"+"+op2+"/first-collection-intact", vfSliceEq([]int(*s0), a))
	vfAssert(op1+"+"+op2+"/first-result-intact", vfSliceEq([]int(*s1), mid))
	vfReach("end")
}

// ---------- constructors and observers: Len / Get / Contains / ToArray / keys / values agree with what was put in ----------

func vh_C04_Constructors() {
	vfSetMapOrder(2)
	a := vfIntList("a", 2, 0)
	probe := vfInt("probe")
	member := vfMember(a, probe)
	switch vfChoose("family", 8) {
	case 0, 1: // generic streams
		var s *StreamDef[int]
		if vfChoose("ctor", 2) == 0 {
			s = StreamFrom(append([]int{}, a...)...)
		} else {
			s = StreamFromArray(append([]int{}, a...))
		}
		vfAssert("len", s.Len() == len(a))
		for i := range a {
			vfAssert("get", s.Get(i) == a[i])
		}
		vfAssert("contains", s.Contains(probe) == member)
		arr := s.ToArray()
		vfAssert("toarray", vfSliceEq(arr, a))
		if len(arr) > 0 {
			arr[0] = vfInt("overwrite")
			vfAssert("toarray-write-does-not-reach-stream", s.Get(0) == a[0])
		}
	case 2, 3: // interface{} streams
		var s *StreamForInterfaceDef
		switch vfChoose("ctor", 3) {
		case 0:
			s = StreamForInterface.FromArrayInt(a)
		case 1:
			s = StreamForInterface.From(c05Box(a)...)
		default:
			s = StreamForInterface.FromArray(c05Box(a))
		}
		vfAssert("len", s.Len() == len(a))
		for i := range a {
			vfAssert("get", s.Get(i) == interface{}(a[i]))
		}
		vfAssert("contains", s.Contains(probe) == member)
		vfAssert("toarray", vfSliceEq(c04Unbox(s), a))
	case 4: // generic sets from keys: every key present with the zero value
		var s *MapSetDef[int, int]
		if vfChoose("ctor", 2) == 0 {
			s = SetFrom[int, int](a...)
		} else {
			s = SetFromArray[int, int](a)
		}
		vfAssert("contains", s.ContainsKey(probe) == member)
		vfAssert("value", vfImplies(member, s.Get(probe) == 0))
		vfAssert("len", s.Size() == len(ref03Distinct(a)))
		vfAssert("keys", vfSameMultiset(s.Keys(), ref03Distinct(a)))
		vfAssert("values", len(s.Values()) == s.Size() && s.ContainsValue(0) == (len(a) > 0))
		vfAssert("contains-value", vfImplies(probe != 0, !s.ContainsValue(probe)))
	case 5: // generic set from a map: values observable
		m := vfIntMap("m", 2)
		s := SetFromMap(m)
		has := false
		for _, v := range m {
			has = vfOr(has, v == probe)
		}
		vfAssert("contains-value", s.ContainsValue(probe) == has)
		vfAssert("values", vfSameMultiset(s.Values(), Values(m)))
		vfAssert("len", s.Size() == len(m))
	case 6: // interface{} sets
		var s *SetForInterfaceDef
		switch vfChoose("ctor", 4) {
		case 0:
			s = SetForInterfaceFrom(c05Box(a)...)
		case 1:
			s = SetForInterfaceFromArray(c05Box(a))
		case 2: // from a map: values observable, RemoveValues removes exactly the entries holding that value
			k1, k2, v1, v2 := vfInt("k1"), vfInt("k2"), vfInt("v1"), vfInt("v2")
			vfAssume(k1 != k2)
			fm := SetForInterfaceFromMap(map[interface{}]interface{}{k1: v1, k2: v2})
			vfAssert("get", vfAnd(fm.Get(k1) == interface{}(v1), fm.Get(k2) == interface{}(v2)))
			vfAssert("contains-value", fm.ContainsValue(probe) == vfOr(probe == v1, probe == v2))
			rv := fm.RemoveValues(v1)
			vfAssert("contains", vfAnd(!rv.ContainsKey(k1), rv.ContainsKey(k2) == (v2 != v1)))
			vfAssert("get", vfAnd(fm.Get(k1) == interface{}(v1), fm.Size() == 2)) // the receiver keeps its entries
			vfReach("end")
			return
		default: // typed-array constructors of the interface{} stream
			var st *StreamForInterfaceDef
			bs := []bool{vfBool("b0"), vfBool("b1")}
			i8 := []int8{vfInt8("i8"), 2}
			f64 := []float64{1.5, 2.5}
			switch vfChoose("typed", 10) {
			case 0:
				st = StreamForInterface.FromArrayString([]string{"p", "q"})
				vfAssert("get", st.Get(0) == interface{}("p") && st.Get(1) == interface{}("q"))
			case 1:
				st = StreamForInterface.FromArrayBool(bs)
				vfAssert("get", vfAnd(st.Get(0) == interface{}(bs[0]), st.Get(1) == interface{}(bs[1])))
			case 2:
				st = StreamForInterface.FromArrayByte([]byte{7, 9})
				vfAssert("get", st.Get(0) == interface{}(byte(7)) && st.Get(1) == interface{}(byte(9)))
			case 3:
				st = StreamForInterface.FromArrayInt8(i8)
				vfAssert("get", vfAnd(st.Get(0) == interface{}(i8[0]), st.Get(1) == interface{}(int8(2))))
			case 4:
				st = StreamForInterface.FromArrayInt16([]int16{3, 4})
				vfAssert("get", st.Get(0) == interface{}(int16(3)) && st.Get(1) == interface{}(int16(4)))
			case 5:
				st = StreamForInterface.FromArrayInt32([]int32{3, 4})
				vfAssert("get", st.Get(0) == interface{}(int32(3)) && st.Get(1) == interface{}(int32(4)))
			case 6:
				st = StreamForInterface.FromArrayInt64([]int64{3, 4})
				vfAssert("get", st.Get(0) == interface{}(int64(3)) && st.Get(1) == interface{}(int64(4)))
			case 7:
				st = StreamForInterface.FromArrayFloat32([]float32{1.5, 2.5})
				vfAssert("get", st.Get(0) == interface{}(float32(1.5)) && st.Get(1) == interface{}(float32(2.5)))
			case 8:
				st = StreamForInterface.FromArrayFloat64(f64)
				vfAssert("get", st.Get(0) == interface{}(1.5) && st.Get(1) == interface{}(2.5))
			default:
				m0, m1 := Maybe.Just(1), Maybe.Just(nil)
				st = StreamForInterface.FromArrayMaybe([]MaybeDef[interface{}]{m0, m1})
				vfAssert("get", st.Get(0).(MaybeDef[interface{}]).IsPresent() && st.Get(1).(MaybeDef[interface{}]).IsNil())
			}
			vfAssert("len", st.Len() == 2)
			vfReach("end")
			return
		}
		vfAssert("contains", s.ContainsKey(probe) == member)
		vfAssert("len", s.Size() == len(ref03Distinct(a)))
		vfAssert("values", len(s.Values()) == s.Size())
	default: // stream sets from keys: every key present with an empty stream of its own
		var keysOf func(k int) bool
		var size int
		if vfChoose("ctor", 2) == 0 {
			var g *StreamSetDef[int, int]
			if vfChoose("variadic", 2) == 0 {
				g = StreamSetFrom[int, int](a...)
			} else {
				g = StreamSetFromArray[int, int](a)
			}
			keysOf, size = g.ContainsKey, g.Size()
			for _, st := range g.MapSetDef {
				vfAssert("value", st != nil && st.Len() == 0)
			}
		} else {
			var t *StreamSetForInterfaceDef
			switch vfChoose("variadic", 4) {
			case 0:
				t = StreamSetForInterfaceFrom(c05Box(a)...)
			case 1:
				t = StreamSetForInterfaceFromArray(c05Box(a))
			case 2:
				t = StreamSetFromInterface(c05Box(a)...)
			default:
				t = StreamSetFromArrayInterface(c05Box(a))
			}
			keysOf, size = func(k int) bool { return t.ContainsKey(k) }, t.Size()
		}
		vfAssert("contains", keysOf(probe) == member)
		vfAssert("len", size == len(ref03Distinct(a)))
	}
	vfReach("end")
}

// two RESULTS are collections of their own as well: after Set on one of them, an earlier result and a later result of
// the same kind of call hold what their definitions prescribe (no hidden sharing between results, e.g. a cached
// empty set). Both StreamSet families and both Set families, with empty / nil arguments included.
func vh_C04_ResultsAreIndependent() {
	vfSetMapOrder(2)
	k := vfInt("k")
	a := vfIntList("a", 2, 0)
	argEmpty := vfChoose("argument", 3) // 0: nil, 1: empty, 2: the receiver's own keys
	switch vfChoose("family", 4) {
	case 0:
		recv := StreamSetForInterfaceFromArray(c05Box(a))
		var arg *StreamSetForInterfaceDef
		if argEmpty == 1 {
			arg = NewStreamSetForInterface()
		} else if argEmpty == 2 {
			arg = StreamSetForInterfaceFromArray(c05Box(a))
		}
		op := func() *StreamSetForInterfaceDef {
			if vfChoose("op", 2) == 0 {
				return recv.Intersection(arg)
			}
			return recv.MinusStreams(arg)
		}
		var r1, r2, r3 *StreamSetForInterfaceDef
		if !vfNoPanic("nopanic", func() { r1, r2 = op(), op() }) || r1 == nil || r2 == nil || r1 == recv || r2 == recv {
			vfReach("end")
			return
		}
		had := r2.ContainsKey(k)
		size := r2.Size()
		if vfPanics(func() { r1.Set(k, StreamForInterface.FromArray(nil)) }) {
			vfReach("end")
			return
		}
		if r1 != r2 { // (the same object handed out twice is that object; what matters then is the next result)
			vfAssert("earlier-result-unchanged", vfAnd(r2.ContainsKey(k) == had, r2.Size() == size))
		}
		vfNoPanic("nopanic", func() { r3 = recv.Intersection(nil) })
		vfAssert("later-result-is-what-its-definition-says", r3 != nil && r3.Size() == 0)
	case 1:
		recv := StreamSetFromArray[int, int](a)
		var arg *StreamSetDef[int, int]
		if argEmpty == 1 {
			arg = NewStreamSet[int, int]()
		} else if argEmpty == 2 {
			arg = StreamSetFromArray[int, int](a)
		}
		op := func() *StreamSetDef[int, int] {
			if vfChoose("op", 2) == 0 {
				return recv.Intersection(arg)
			}
			return recv.MinusStreams(arg)
		}
		var r1, r2, r3 *StreamSetDef[int, int]
		if !vfNoPanic("nopanic", func() { r1, r2 = op(), op() }) || r1 == nil || r2 == nil || r1 == recv || r2 == recv {
			vfReach("end")
			return
		}
		had := r2.ContainsKey(k)
		size := r2.Size()
		if vfPanics(func() { r1.Set(k, new(StreamDef[int])) }) {
			vfReach("end")
			return
		}
		if r1 != r2 {
			vfAssert("earlier-result-unchanged", vfAnd(r2.ContainsKey(k) == had, r2.Size() == size))
		}
		vfNoPanic("nopanic", func() { r3 = recv.Intersection(nil) })
		vfAssert("later-result-is-what-its-definition-says", r3 != nil && r3.Size() == 0)
	case 2:
		recv := SetForInterfaceFromArray(c05Box(a))
		var arg *SetForInterfaceDef
		if argEmpty == 1 {
			arg = SetForInterfaceFromArray(nil)
		} else if argEmpty == 2 {
			arg = SetForInterfaceFromArray(c05Box(a))
		}
		var r1, r2 *SetForInterfaceDef
		if !vfNoPanic("nopanic", func() { r1, r2 = recv.Intersection(arg), recv.Intersection(arg) }) || r1 == nil || r2 == nil || r1 == recv || r2 == recv || r1 == r2 {
			vfReach("end")
			return
		}
		had := r2.ContainsKey(k)
		if vfPanics(func() { r1.Set(k, k) }) {
			vfReach("end")
			return
		}
		vfAssert("earlier-result-unchanged", r2.ContainsKey(k) == had)
	default:
		recv := SetFromArray[int, int](a)
		var arg SetDef[int, int]
		if argEmpty == 1 {
			arg = SetFromArray[int, int](nil)
		} else if argEmpty == 2 {
			arg = SetFromArray[int, int](a)
		}
		var r1, r2 SetDef[int, int]
		if !vfNoPanic("nopanic", func() { r1, r2 = recv.Intersection(arg), recv.Intersection(arg) }) || r1 == nil || r2 == nil || r1.AsMapSet() == recv || r2.AsMapSet() == recv || r1.AsMapSet() == r2.AsMapSet() {
			vfReach("end")
			return
		}
		had := r2.ContainsKey(k)
		if vfPanics(func() { r1.Set(k, k) }) {
			vfReach("end")
			return
		}
		vfAssert("earlier-result-unchanged", r2.ContainsKey(k) == had)
	}
	vfReach("end")
}

// a receiver with NO map under it - a zero-valued set (new(...)), the package's utility instance, or the result of
// Intersection(nil) - united with a non-empty argument: the result holds the argument's entries, and from then on
// writing to the result (Set) does not reach the argument, nor writing to the argument the earlier result
func vh_C04_NilMapReceiver() {
	vfSetMapOrder(3)
	k1, v1, k2, v2 := vfInt("k1"), vfInt("v1"), vfInt("k2"), vfInt("v2")
	writeResult := vfChoose("then-write-to", 2) == 0
	switch vfChoose("family", 3) {
	case 0: // generic MapSet
		arg := SetFromMap(map[int]int{k1: v1})
		var recv *MapSetDef[int, int]
		if vfChoose("receiver", 2) == 0 {
			recv = new(MapSetDef[int, int])
		} else {
			recv = SetFromMap(map[int]int{k2: v2}).Intersection(nil).AsMapSet()
		}
		var r SetDef[int, int]
		if !vfNoPanic("Union/nopanic", func() { r = recv.Union(arg) }) || r == nil {
			return
		}
		vfAssert("Union/membership", vfAnd(r.ContainsKey(k1), r.Size() == 1))
		vfAssert("Union/value", r.Get(k1) == v1)
		vfAssume(k2 != k1)
		if writeResult {
			if !vfPanics(func() { r.Set(k2, v2) }) {
				vfAssert("Union/set-on-result-leaves-existing-collections-unchanged", vfAnd(!arg.ContainsKey(k2), arg.Size() == 1))
			}
		} else {
			arg.Set(k2, v2)
			vfAssert("Union/earlier-result-unchanged-by-later-write-to-argument", vfAnd(!r.ContainsKey(k2), r.Size() == 1))
		}
	case 1: // interface{} set
		arg := SetForInterfaceFromMap(map[interface{}]interface{}{k1: v1})
		recv := new(SetForInterfaceDef)
		if vfChoose("receiver", 2) == 1 {
			recv = &Set // the package's utility instance
		}
		var r *SetForInterfaceDef
		if !vfNoPanic("Union/nopanic", func() { r = recv.Union(arg) }) || r == nil {
			return
		}
		vfAssert("Union/membership", vfAnd(r.ContainsKey(k1), r.Size() == 1))
		vfAssume(k2 != k1)
		if writeResult {
			if r != arg && !vfPanics(func() { r.Set(k2, v2) }) {
				vfAssert("Union/set-on-result-leaves-existing-collections-unchanged", vfAnd(!arg.ContainsKey(k2), arg.Size() == 1))
			}
		} else if r != arg {
			arg.Set(k2, v2)
			vfAssert("Union/earlier-result-unchanged-by-later-write-to-argument", vfAnd(!r.ContainsKey(k2), r.Size() == 1))
		}
	default: // interface{} stream set, utility instance
		arg := StreamSetForInterface.Clone()
		st := StreamForInterface.FromArrayInt([]int{v1})
		arg.Set(k1, st)
		recv := &StreamSetForInterface
		var r *StreamSetForInterfaceDef
		if !vfNoPanic("Union/nopanic", func() { r = recv.Union(arg) }) || r == nil {
			return
		}
		vfAssert("Union/membership", vfAnd(r.ContainsKey(k1), r.Size() == 1))
		vfAssume(k2 != k1)
		if writeResult {
			if r != arg && !vfPanics(func() { r.Set(k2, StreamForInterface.FromArrayInt([]int{v2})) }) {
				vfAssert("Union/set-on-result-leaves-existing-collections-unchanged", vfAnd(!arg.ContainsKey(k2), arg.Size() == 1))
			}
		} else if r != arg {
			arg.Set(k2, StreamForInterface.FromArrayInt([]int{v2}))
			vfAssert("Union/earlier-result-unchanged-by-later-write-to-argument", vfAnd(!r.ContainsKey(k2), r.Size() == 1))
		}
	}
	vfReach("end")
}

// a stream set is copied (Clone, or MinusStreams with an argument that does not touch the key), then a stream taken
// from the COPY is sorted by index - the one stream operation that rearranges the storage of the stream it is called
// on: the stream the original set holds under that key still shows exactly its elements, in their order
func vh_C04_StreamSetCopyThenSort() {
	vfSetMapOrder(3)
	k, other := vfInt("k"), vfInt("other-key")
	vfAssume(k != other)
	a, b, c := vfInt("a"), vfInt("b"), vfInt("c")
	viaMinus := vfChoose("copied-by", 2) == 1
	if vfChoose("family", 2) == 0 {
		set := StreamSetFromMap(map[int]*StreamDef[int]{k: StreamFromArray([]int{a, b, c})})
		var cp *StreamSetDef[int, int]
		if !vfNoPanic("nopanic", func() {
			if viaMinus {
				cp = set.MinusStreams(StreamSetFromMap(map[int]*StreamDef[int]{other: StreamFromArray([]int{a})}))
			} else {
				cp = set.Clone()
			}
		}) || cp == nil {
			return
		}
		st := cp.MapSetDef[k]
		vfAssert("copy-holds-the-stream", st != nil && vfSliceEq([]int(*st), []int{a, b, c}))
		if st != nil && !vfPanics(func() { st.SortByIndex(func(i, j int) bool { return (*st)[i] > (*st)[j] }) }) {
			orig := set.MapSetDef[k]
			vfAssert("Clone/existing-collections-unchanged", orig != nil && vfSliceEq([]int(*orig), []int{a, b, c}))
		}
	} else {
		mk := func(vs ...int) *StreamForInterfaceDef { return StreamForInterface.FromArray(c05Box(vs)) }
		set := StreamSetForInterface.Clone()
		set.Set(k, mk(a, b, c))
		var cp *StreamSetForInterfaceDef
		if !vfNoPanic("nopanic", func() {
			if viaMinus {
				arg := StreamSetForInterface.Clone()
				arg.Set(other, mk(a))
				cp = set.MinusStreams(arg)
			} else {
				cp = set.Clone()
			}
		}) || cp == nil {
			return
		}
		st, _ := cp.Get(k).(*StreamForInterfaceDef)
		vfAssert("copy-holds-the-stream", st != nil && vfSliceEq(c04Unbox(st), []int{a, b, c}))
		if st != nil && !vfPanics(func() { st.SortByIndex(func(i, j int) bool { return (*st)[i].(int) > (*st)[j].(int) }) }) {
			orig, _ := set.Get(k).(*StreamForInterfaceDef)
			vfAssert("Clone/existing-collections-unchanged", orig != nil && vfSliceEq(c04Unbox(orig), []int{a, b, c}))
		}
	}
	vfReach("end")
}
