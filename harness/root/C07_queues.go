package fpgo

import (
	"sync"
	"time"
)

// vf:instrument

// C07: ChannelQueue / BufferedChannelQueue: every accepted value is delivered exactly once, per-producer order is kept,
// the queue never holds more than channelCapacity + bufferSizeMaximum items, Offer/Poll never block and fail only with
// the documented errors, Count = accepted - delivered at quiescence, and once producers stopped repeated Take/Poll calls
// retrieve everything (channelCapacity >= 1). Bounds: capacity 0..2, bufferSizeMaximum 0..2, 1..2 producers x <= 2 items
// (thorough 3), 1 consumer, loader/free-node goroutines of the real code, virtual time, <= 1 preemption (thorough 2).

// A queued value is a concrete identity tag (producer*10 + sequence number: the bookkeeping below runs on tags)
// plus an arbitrary symbolic payload that has to come out of the queue unchanged for all its values.
type c07Item struct{ Tag, Payload int }

type c07Log struct {
	mu        sync.Mutex
	accepted  []int
	rejected  []int
	delivered []int
	payload   map[int]int
}

func (l *c07Log) item(tag int) c07Item {
	l.mu.Lock()
	defer l.mu.Unlock()
	if l.payload == nil {
		l.payload = map[int]int{}
	}
	p, ok := l.payload[tag]
	if !ok {
		p = vfInt("payload")
		l.payload[tag] = p
	}
	return c07Item{Tag: tag, Payload: p}
}

func (l *c07Log) accept(v int, err error) {
	l.mu.Lock()
	if err == nil {
		l.accepted = append(l.accepted, v)
	} else {
		l.rejected = append(l.rejected, v)
	}
	l.mu.Unlock()
}

func (l *c07Log) deliver(it c07Item) {
	l.mu.Lock()
	want, known := l.payload[it.Tag]
	vfAssert("never-invented", known)
	vfAssert("payload-intact", vfImplies(known, it.Payload == want))
	l.delivered = append(l.delivered, it.Tag)
	l.mu.Unlock()
}

// c07Check: delivered values are exactly the accepted ones (once each, nothing invented), per-producer order kept.
func c07Check(l *c07Log, complete bool) {
	seen := map[int]int{}
	for _, v := range l.delivered {
		seen[v]++
	}
	for v, c := range seen {
		vfAssert("never-duplicated", c == 1)
		acc := false
		for _, a := range l.accepted {
			if a == v {
				acc = true
			}
		}
		vfAssert("never-invented", acc)
	}
	if complete {
		vfAssert("nothing-lost-or-stranded", len(l.delivered) == len(l.accepted))
	}
	last := map[int]int{}
	inOrder := true
	for _, v := range l.delivered {
		p, i := v/10, v%10
		if prev, ok := last[p]; ok && i < prev {
			inOrder = false
		}
		last[p] = i
	}
	vfAssert("per-producer-order", inOrder)
}

func vh_C07_ChannelQueue() {
	vfSetMapOrder(2)
	capacity := vfRange("cap", 0, 2)
	q := NewChannelQueue[c07Item](capacity)
	l := &c07Log{}
	n := vfRange("items", 1, 2+vfTier())
	// non-blocking producer: Offer accepts exactly while there is room
	for i := 0; i < n; i++ {
		err := q.Offer(l.item(i))
		l.accept(i, err)
		if i < capacity {
			vfAssert("offer-accepts-while-room", err == nil)
		} else {
			vfAssert("offer-full-error", err == ErrQueueIsFull)
		}
	}
	vfAssert("bounded", len(l.accepted) <= capacity)
	// a blocking producer and a consumer
	total := len(l.accepted) + 1
	var wg sync.WaitGroup
	wg.Add(1)
	go func() {
		vfAssert("put-no-error", q.Put(l.item(10)) == nil)
		l.accept(10, nil)
		wg.Done()
	}()
	for i := 0; i < total; i++ {
		var v c07Item
		var err error
		switch vfChoose("take", 2) {
		case 0:
			v, err = q.Take()
		default:
			v, err = q.TakeWithTimeout(time.Hour)
		}
		vfAssert("take-no-error", err == nil)
		l.deliver(v)
	}
	wg.Wait()
	_, perr := q.Poll()
	vfAssert("poll-empty-error", perr == ErrQueueIsEmpty)
	_, terr := q.TakeWithTimeout(time.Millisecond)
	vfAssert("take-timeout-error", terr == ErrQueueTakeTimeout)
	c07Check(l, true)
	vfReach("end")
}

func c07Produce(q *BufferedChannelQueue[c07Item], l *c07Log, p, n int, usePut bool) {
	for i := 0; i < n; i++ {
		v := p*10 + i
		var err error
		if usePut {
			err = q.Put(l.item(v))
		} else {
			err = q.Offer(l.item(v))
		}
		vfAssert("offer-error-is-full-or-nil", err == nil || err == ErrQueueIsFull)
		l.accept(v, err)
	}
}

// c07Drain: repeated Take/Poll calls without any further Offer retrieve everything that was accepted.
func c07Drain(q *BufferedChannelQueue[c07Item], l *c07Log, want int) {
	c07DrainHow(q, l, want, vfChoose("how", 3)) // one retrieval style per run
}

func c07DrainHow(q *BufferedChannelQueue[c07Item], l *c07Log, want int, how int) {
	for tries := 0; len(l.delivered) < want && tries < 4*want+4; tries++ {
		var v c07Item
		var err error
		switch how {
		case 0:
			v, err = q.TakeWithTimeout(150 * time.Millisecond)
		case 1:
			v, err = q.Poll()
			if err != nil {
				vfAssert("poll-error-is-empty", err == ErrQueueIsEmpty)
				time.Sleep(100 * time.Millisecond)
			}
		default:
			select {
			case v = <-q.GetChannel():
			case <-time.After(150 * time.Millisecond):
				err = ErrQueueTakeTimeout
			}
		}
		if err == nil {
			l.deliver(v)
		}
	}
}

func vh_C07_BufferedProducersThenConsumer() {
	vfSetMapOrder(2)
	capacity := vfRange("cap", 1, 2)
	bufMax := vfRange("bufmax", 0, 2)
	q := NewBufferedChannelQueue[c07Item](capacity, bufMax, 1)
	l := &c07Log{}
	producers := vfRange("producers", 1, 2)
	per := vfRange("per", 1, 2+vfTier())
	var wg sync.WaitGroup
	for p := 0; p < producers; p++ {
		p := p
		wg.Add(1)
		go func() { c07Produce(q, l, p, per, p == 1); wg.Done() }()
	}
	wg.Wait()
	vfAssert("bounded", len(l.accepted) <= capacity+bufMax)
	if producers*per <= capacity+bufMax && bufMax == 0 {
		vfAssert("accepts-while-room-in-channel", len(l.rejected) == 0)
	}
	vfQuiesce()
	vfAssert("count-at-quiescence", q.Count() == len(l.accepted))
	c07Drain(q, l, len(l.accepted))
	c07Check(l, true)
	vfQuiesce()
	vfAssert("count-after-drain", q.Count() == 0)
	vfReach("end")
}

func vh_C07_BufferedConcurrentConsumer() {
	vfSetMapOrder(2)
	capacity := vfRange("cap", 0, 1)
	bufMax := vfRange("bufmax", 0, 2)
	q := NewBufferedChannelQueue[c07Item](capacity, bufMax, 1)
	l := &c07Log{}
	per := vfRange("per", 1, 2+vfTier())
	var wg sync.WaitGroup
	wg.Add(2)
	go func() { c07Produce(q, l, 0, per, false); wg.Done() }()
	go func() {
		for i := 0; i < per; i++ {
			var v c07Item
			var err error
			if vfChoose("how", 2) == 0 {
				v, err = q.TakeWithTimeout(150 * time.Millisecond)
			} else {
				v, err = q.Poll()
			}
			if err == nil {
				l.deliver(v)
			} else {
				vfAssert("consumer-error-kind", err == ErrQueueIsEmpty || err == ErrQueueTakeTimeout)
			}
		}
		wg.Done()
	}()
	wg.Wait()
	c07Check(l, false)
	if capacity >= 1 {
		c07Drain(q, l, len(l.accepted))
		c07Check(l, true)
	}
	vfReach("end")
}

// one goroutine interleaves offers and removals (so the accepted order is the program order) while the loader runs
// whenever the schedule lets it: a value accepted later must never overtake one still waiting in the overflow buffer
func vh_C07_BufferedScript() {
	vfSetMapOrder(2)
	bufMax := vfRange("bufmax", 1, 1+vfTier())
	q := NewBufferedChannelQueue[c07Item](1, bufMax, 1)
	l := &c07Log{}
	next := 0
	raw := q.GetChannel() // obtained once: later receives on it do not wake the loader by themselves
	offer := func() {
		err := q.Offer(l.item(next))
		vfAssert("offer-error-is-full-or-nil", err == nil || err == ErrQueueIsFull)
		l.accept(next, err)
		next++
	}
	for i := 0; i < 1+bufMax; i++ {
		offer() // fill the channel and the overflow buffer
	}
	vfAssert("filled", len(l.accepted) == 1+bufMax)
	steps := 3 + vfTier()
	for i := 0; i < steps; i++ {
		switch vfChoose("op", 4) {
		case 0:
			offer()
		case 3:
			select {
			case v := <-raw:
				l.deliver(v)
			default:
			}
		case 1:
			if v, err := q.Poll(); err == nil {
				l.deliver(v)
			} else {
				vfAssert("poll-error-is-empty", err == ErrQueueIsEmpty)
			}
		default:
			if v, err := q.TakeWithTimeout(150 * time.Millisecond); err == nil {
				l.deliver(v)
			}
		}
		vfAssert("bounded", len(l.accepted)-len(l.delivered) <= 1+bufMax)
	}
	c07DrainHow(q, l, len(l.accepted), vfChoose("drain-how", 2))
	c07Check(l, true)
	// single producer: delivery order is exactly acceptance order
	vfAssert("fifo", len(l.delivered) == len(l.accepted))
	for i := range l.accepted {
		if i < len(l.delivered) {
			vfAssert("fifo", l.delivered[i] == l.accepted[i])
		}
	}
	vfReach("end")
}

// ChannelQueue.PutWithTimeout: accepted while a consumer makes room within the timeout, ErrQueuePutTimeout otherwise;
// an accepted value is delivered exactly once, a refused one never
func vh_C07_PutWithTimeout() {
	capacity := vfRange("cap", 0, 1)
	q := NewChannelQueue[c07Item](capacity)
	l := &c07Log{}
	for i := 0; i < capacity; i++ {
		l.accept(i, q.Offer(l.item(i)))
	}
	consumerLate := vfChoose("consumer-after-the-timeout", 2) == 1
	done := make(chan struct{})
	go func() {
		if consumerLate {
			time.Sleep(500 * time.Millisecond)
		}
		if v, err := q.TakeWithTimeout(time.Second); err == nil {
			l.deliver(v)
		}
		close(done)
	}()
	err := q.PutWithTimeout(l.item(10), 200*time.Millisecond)
	l.accept(10, err)
	if consumerLate {
		vfAssert("put-timeout-error", err == ErrQueuePutTimeout)
	} else {
		vfAssert("put-no-error", err == nil)
	}
	<-done
	for len(l.delivered) < len(l.accepted) {
		v, e := q.TakeWithTimeout(100 * time.Millisecond)
		if e != nil {
			break
		}
		l.deliver(v)
	}
	c07Check(l, true)
	vfReach("end")
}

// the buffer maximum can be changed through its setter on a quiet queue: the bound and the full-error follow the new
// value, and nothing accepted is lost (single goroutine plus the queue's own loader)
func vh_C07_BufferLimitSetter() {
	vfSetMapOrder(2)
	q := NewBufferedChannelQueue[c07Item](1, vfRange("bufmax", 0, 1), 1)
	newMax := vfRange("new-bufmax", 0, 2)
	q.SetBufferSizeMaximum(newMax).SetLoadFromPoolDuration(time.Millisecond).SetNodeHookPoolSize(1).SetFreeNodeHookPoolIntervalDuration(time.Hour)
	vfAssert("getter-agrees", q.GetBufferSizeMaximum() == newMax && q.GetLoadFromPoolDuration() == time.Millisecond && q.GetNodeHookPoolSize() == 1 && q.GetFreeNodeHookPoolIntervalDuration() == time.Hour)
	l := &c07Log{}
	for i := 0; i < 1+newMax+1; i++ {
		err := q.Offer(l.item(i))
		vfAssert("offer-error-is-full-or-nil", err == nil || err == ErrQueueIsFull)
		l.accept(i, err)
	}
	vfAssert("bounded", len(l.accepted) <= 1+newMax)
	vfAssert("filled", len(l.accepted) == 1+newMax) // nobody consumes: exactly channel + buffer are accepted
	vfQuiesce()
	vfAssert("count-at-quiescence", q.Count() == len(l.accepted))
	c07DrainHow(q, l, len(l.accepted), vfChoose("drain-how", 2))
	c07Check(l, true)
	vfAssert("fifo", vfSliceEq(l.delivered, l.accepted))
	vfReach("end")
}

// the overflow buffer is filled and drained to empty several times over, so that its recycled list nodes are reused
// (nodeHookPoolSize large enough to keep them): every round delivers exactly what it accepted, in order
func vh_C07_BufferReusedAcrossRounds() {
	vfSetMapOrder(2)
	q := NewBufferedChannelQueue[c07Item](1, 4, []int{1, 10}[vfChoose("node-hooks", 2)])
	l := &c07Log{}
	next := 0
	for round := 0; round < 3; round++ {
		k := vfRange("offers", 1, 3)
		for i := 0; i < k; i++ {
			err := q.Offer(l.item(next))
			vfAssert("offer-error-is-full-or-nil", err == nil || err == ErrQueueIsFull)
			l.accept(next, err)
			next++
		}
		for tries := 0; len(l.delivered) < len(l.accepted) && tries < 8; tries++ {
			if v, err := q.TakeWithTimeout(150 * time.Millisecond); err == nil {
				l.deliver(v)
			}
		}
		vfAssert("nothing-lost-or-stranded", len(l.delivered) == len(l.accepted))
		vfQuiesce()
		vfAssert("count-after-drain", q.Count() == 0)
	}
	c07Check(l, true)
	vfAssert("fifo", vfSliceEq(l.delivered, l.accepted))
	vfReach("end")
}

// the two integer limits as SYMBOLIC 64-bit values: bufferSizeMaximum any non-negative int, nodeHookPoolSize any int at
// all (the code only compares them with its own counters, so the solver decides each comparison for all values at once).
// One goroutine offers k <= 3 (thorough 4) items to a queue nobody reads: exactly min(k, 1+bufferSizeMaximum) are accepted, the rest
// are refused with ErrQueueIsFull, and a drain returns the accepted ones in order while the free-node pass runs.
func vh_C07_SymbolicLimits() {
	vfSetMapOrder(2)
	bufMax, hooks := vfInt("bufmax"), vfInt("node-hooks")
	vfAssume(bufMax >= 0)
	q := NewBufferedChannelQueue[c07Item](1, bufMax, hooks)
	if vfChoose("free-node-pass-runs", 2) == 1 {
		q.SetFreeNodeHookPoolIntervalDuration(50 * time.Millisecond)
	}
	l := &c07Log{}
	k := vfRange("offers", 1, 3+vfTier())
	for i := 0; i < k; i++ {
		err := q.Offer(l.item(i))
		vfAssert("offer-error-is-full-or-nil", err == nil || err == ErrQueueIsFull)
		// room is exactly: the channel slot plus bufMax buffer places
		vfAssert("offer-accepts-while-room", vfImplies(vfOr(i == 0, bufMax >= i), err == nil))
		vfAssert("offer-full-error", vfImplies(vfAnd(i > 0, bufMax < i), err == ErrQueueIsFull))
		l.accept(i, err)
	}
	vfAssert("bounded", vfOr(bufMax >= k, len(l.accepted) <= 1+bufMax))
	vfQuiesce()
	vfAssert("count-at-quiescence", q.Count() == len(l.accepted))
	c07DrainHow(q, l, len(l.accepted), vfChoose("drain-how", 2))
	c07Check(l, true)
	vfAssert("fifo", vfSliceEq(l.delivered, l.accepted))
	vfQuiesce()
	vfAssert("count-after-drain", q.Count() == 0)
	vfReach("end")
}

// the free-node pass trims the overflow buffer's cache of list nodes down to nodeHookPoolSize (0..1) after a burst that
// left 3 of them behind, handing the surplus to the runtime's sync.Pool - from where a second burst may get them back
// (the pool model returns a fresh node or any node handed to it before). Whatever the trimmed nodes still carry, the
// second burst - and a third one after it has been drained - is accepted, counted and delivered exactly once in order.
func vh_C07_TrimmedNodesComeBack() {
	vfSetMapOrder(2)
	vfSetDelayBound(0) // one caller: the queue's own goroutines run whenever it waits; what is explored is which node sync.Pool returns
	q := NewBufferedChannelQueue[c07Item](1, 4, vfRange("node-hooks", 0, 1))
	l := &c07Log{}
	next := 0
	for round := 0; round < 3; round++ {
		k := 4
		switch round {
		case 1:
			k = vfRange("second-burst", 2, 3) // its last node may be one that came back
		case 2:
			k = 2 // ... and what was accepted after that drain must still come out
		}
		for i := 0; i < k; i++ {
			err := q.Offer(l.item(next))
			vfAssert("offer-accepts-while-room", err == nil) // 1 channel slot + 4 buffer places
			l.accept(next, err)
			next++
		}
		for tries := 0; len(l.delivered) < len(l.accepted) && tries < 10; tries++ {
			if v, err := q.TakeWithTimeout(150 * time.Millisecond); err == nil {
				l.deliver(v)
			}
		}
		vfAssert("nothing-lost-or-stranded", len(l.delivered) == len(l.accepted))
		vfQuiesce() // the free-node pass runs
		vfAssert("count-after-drain", q.Count() == 0)
	}
	c07Check(l, true)
	vfAssert("fifo", vfSliceEq(l.delivered, l.accepted))
	vfReach("end")
}

// AT SCALE: one producer and one consumer on a queue whose burst size is taken from the code (vfProbe: just beyond every
// integer constant that BufferedChannelQueue and the LinkedListQueue under it compare a count with), next to the small
// size 6: two bursts of n items, each followed by a full drain (TakeWithTimeout or Poll); exactly-once, FIFO, Count;
// base schedule only, sync.Pool as a LIFO cache. On a tree without such constants: one small run.
func vh_C07_AtScale() {
	vfSetMapOrder(2)
	vfSetDelayBound(0)
	vfSetPoolMode(1)
	n := vfProbe("n", "BufferedChannelQueue|LinkedListQueue", 6, 6)
	q := NewBufferedChannelQueue[c07Item](2, n, vfRange("node-hooks", 0, 1))
	l := &c07Log{}
	next := 0
	how := vfChoose("drain-how", 2)
	for round := 0; round < 2; round++ {
		for i := 0; i < n; i++ {
			err := q.Offer(l.item(next))
			vfAssert("offer-accepts-while-room", err == nil) // 2 channel slots + n buffer places
			l.accept(next, err)
			next++
		}
		vfQuiesce()
		vfAssert("count-at-quiescence", q.Count() == len(l.accepted)-len(l.delivered))
		c07DrainHow(q, l, len(l.accepted), how)
		vfAssert("nothing-lost-or-stranded", len(l.delivered) == len(l.accepted))
		vfQuiesce()
		vfAssert("count-after-drain", q.Count() == 0)
	}
	c07Check(l, true)
	vfAssert("fifo", vfSliceEq(l.delivered, l.accepted))
	vfReach("end")
}
