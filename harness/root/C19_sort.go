package fpgo

// C19: sorting yields an ordered, stable permutation; descriptor sorts order lexicographically by the key list.
// Bounds: n <= 4 (thorough 5) records, keys symbolic (duplicates reachable), descriptor stacks of 1..2 keys (thorough 3).
// sort.SliceStable is modelled as the insertion sort it is for n <= 20 (see engine intrinsics).

type c19Rec struct {
	K   int
	Idx int
}

func c19N() int { return 4 + vfTier() }

func c19Recs(name string) []c19Rec {
	n := vfRange(name+".len", 0, c19N())
	l := make([]c19Rec, n)
	for i := range l {
		l[i] = c19Rec{K: vfInt(name + ".k"), Idx: i}
	}
	return l
}

// c19Check: out is a permutation of in (Idx is the original position), ordered by less, and stable.
func c19Check(pfx string, in, out []c19Rec, less func(a, b c19Rec) bool) {
	vfAssert(pfx+"len", len(out) == len(in))
	if len(out) != len(in) {
		return
	}
	seen := make([]bool, len(in))
	perm := true
	for _, r := range out {
		if r.Idx < 0 || r.Idx >= len(in) || seen[r.Idx] {
			perm = false
			continue
		}
		seen[r.Idx] = true
		perm = vfAnd(perm, r.K == in[r.Idx].K)
	}
	vfAssert(pfx+"permutation", perm)
	ordered, stable := true, true
	for i := range out {
		for j := i + 1; j < len(out); j++ {
			ordered = vfAnd(ordered, !less(out[j], out[i]))
			tie := vfAnd(!less(out[i], out[j]), !less(out[j], out[i]))
			stable = vfAnd(stable, vfImplies(tie, out[i].Idx < out[j].Idx))
		}
	}
	vfAssert(pfx+"ordered", ordered)
	vfAssert(pfx+"stable", stable)
}

func c19Copy(l []c19Rec) []c19Rec { return append([]c19Rec{}, l...) }

func c19Less(mode int) func(a, b c19Rec) bool {
	switch mode {
	case 0:
		return func(a, b c19Rec) bool { return a.K < b.K }
	case 1:
		return func(a, b c19Rec) bool { return a.K > b.K }
	default: // order induced by an arbitrary key function
		return func(a, b c19Rec) bool { return vfFn("key", a.K) < vfFn("key", b.K) }
	}
}

func vh_C19_Sort() {
	in := c19Recs("l")
	orig := c19Copy(in)
	less := c19Less(vfChoose("cmp", 3))
	if !vfNoPanic("nopanic", func() { Sort(less, in) }) {
		return
	}
	c19Check("", orig, in, less) // Sort works in place
	vfReach("end")
}

func vh_C19_SortSlice() {
	in := c19Recs("l")
	orig := c19Copy(in)
	less := c19Less(vfChoose("cmp", 2))
	var out []c19Rec
	if !vfNoPanic("nopanic", func() { out = SortSlice(less, in...) }) {
		return
	}
	c19Check("", orig, out, less)
	vfReach("end")
}

// Stability beyond the sizes at which an unstable library sort happens to be stable (sort.Slice is an insertion sort up
// to 12 elements): 13..14 records whose keys follow the fixed tie pattern (i*7)%3, through every comparator-based
// entry point. Keys are concrete here (the point is the size), so this is one path per entry point and size.
type c19Big struct {
	K   ComparableOrdered[int]
	Idx int
}

func vh_C19_StableAtScale() {
	// 13..14 records (beyond sort.Slice's insertion-sort range), and sizes taken from the code: just beyond every integer
	// constant the sorting functions compare a length with (a fast path, a cut-over between algorithms)
	n := vfProbe("n", "Sort|sort", 13, 14)
	if n > 20 {
		n = 20 // the sort.SliceStable model covers n <= 20
	}
	in := make([]c19Rec, n)
	rows := make([]c19Big, n)
	shape := vfChoose("key-shape", 4) // scattered with many ties / descending in pairs / all equal / ascending in pairs
	for i := range in {
		k := (i * 7) % 3
		switch shape {
		case 1:
			k = (n - i) / 2
		case 2:
			k = 1
		case 3:
			k = i / 2
		}
		in[i] = c19Rec{K: k, Idx: i}
		rows[i] = c19Big{K: NewComparableOrdered(k), Idx: i}
	}
	orig := c19Copy(in)
	less := func(a, b c19Rec) bool { return a.K < b.K }
	switch vfChoose("entry", 5) {
	case 0:
		if vfNoPanic("nopanic", func() { Sort(less, in) }) {
			c19Check("sort-", orig, in, less)
		}
	case 1:
		var out []c19Rec
		if vfNoPanic("nopanic", func() { out = SortSlice(less, in...) }) {
			c19Check("sortslice-", orig, out, less)
		}
	case 2:
		var out *StreamDef[c19Rec]
		if vfNoPanic("nopanic", func() { out = StreamFromArray(in).Sort(less) }) {
			c19Check("stream-sort-", orig, []c19Rec(*out), less)
		}
	case 3:
		s := StreamFromArray(in)
		var out *StreamDef[c19Rec]
		if vfNoPanic("nopanic", func() { out = s.SortByIndex(func(i, j int) bool { return (*s)[i].K < (*s)[j].K }) }) {
			c19Check("stream-sortbyindex-", orig, []c19Rec(*out), less)
		}
	default:
		var out []c19Big
		d := NewSimpleSortDescriptor(func(r c19Big) Comparable[interface{}] { return r.K }, true)
		if vfNoPanic("nopanic", func() { out = SortedListBySortDescriptors([]SortDescriptor[c19Big]{d}, rows...) }) {
			stable, ordered := len(out) == n, true
			for i := 0; i+1 < len(out); i++ {
				ordered = ordered && out[i].K.Val <= out[i+1].K.Val
				if out[i].K.Val == out[i+1].K.Val && out[i].Idx > out[i+1].Idx {
					stable = false
				}
			}
			vfAssert("descriptors-ordered", ordered)
			vfAssert("descriptors-stable", stable)
		}
	}
	vfReach("end")
}

func vh_C19_SortOrdered() {
	l := vfIntList("l", c19N(), 0)
	orig := append([]int{}, l...)
	asc := vfBool("ascending")
	var out []int
	which := vfChoose("fn", 2)
	if !vfNoPanic("nopanic", func() {
		if which == 0 {
			out = SortOrdered(asc, l...)
		} else if asc {
			out = SortOrderedAscending(l...)
		} else {
			out = SortOrderedDescending(l...)
		}
	}) {
		return
	}
	vfAssert("permutation", vfSameMultiset(out, orig))
	ordered := true
	for i := 0; i+1 < len(out); i++ {
		ordered = vfAnd(ordered, vfIteBool(asc, out[i] <= out[i+1], out[i] >= out[i+1]))
	}
	vfAssert("ordered", ordered)
	vfReach("end")
}

// ---------- Stream.Sort / Stream.SortByIndex, both families ----------

func vh_C19_StreamSort() {
	in := c19Recs("l")
	orig := c19Copy(in)
	less := c19Less(vfChoose("cmp", 2))
	s := StreamFromArray(in)
	var out *StreamDef[c19Rec]
	if !vfNoPanic("nopanic", func() { out = s.Sort(less) }) {
		return
	}
	c19Check("", orig, []c19Rec(*out), less)
	vfAssert("receiver-unchanged", vfEq([]c19Rec(*s), orig))
	vfReach("end")
}

func vh_C19_StreamSortByIndex() {
	in := c19Recs("l")
	orig := c19Copy(in)
	less := c19Less(vfChoose("cmp", 2))
	s := StreamFromArray(in)
	var out *StreamDef[c19Rec]
	if !vfNoPanic("nopanic", func() {
		// the index comparator looks at the storage being sorted (the stream's own backing array), as
		// sort.SliceStable's contract prescribes
		out = s.SortByIndex(func(a, b int) bool { return less(in[a], in[b]) })
	}) {
		return
	}
	c19Check("", orig, []c19Rec(*out), less)
	vfAssert("receiver-shows-old-order", vfEq([]c19Rec(*s), orig))
	vfReach("end")
}

func vh_C19_StreamForInterfaceSort() {
	in := c19Recs("l")
	orig := c19Copy(in)
	less := c19Less(vfChoose("cmp", 2))
	boxed := make([]interface{}, len(in))
	for i, r := range in {
		boxed[i] = r
	}
	s := StreamForInterface.FromArray(boxed)
	var out *StreamForInterfaceDef
	if !vfNoPanic("nopanic", func() {
		out = s.Sort(func(a, b interface{}) bool { return less(a.(c19Rec), b.(c19Rec)) })
	}) {
		return
	}
	res := make([]c19Rec, 0, out.Len())
	for _, v := range *out {
		res = append(res, v.(c19Rec))
	}
	c19Check("", orig, res, less)
	vfAssert("receiver-len", s.Len() == len(orig))
	for i := range orig {
		if i < s.Len() {
			vfAssert("receiver-unchanged", s.Get(i).(c19Rec) == orig[i])
		}
	}
	vfReach("end")
}

// ---------- sort descriptors ----------

type c19Row struct {
	A   ComparableOrdered[int]
	B   ComparableOrdered[int]
	S   ComparableString
	Idx int
}

func c19Rows(name string, n int) []c19Row {
	l := make([]c19Row, n)
	for i := range l {
		// small key domain so that ties on the first key (and hence the later descriptors) matter
		a, b := vfInt(name+".a"), vfInt(name+".b")
		vfAssume(vfAnd(vfAnd(0 <= a, a < 3), vfAnd(0 <= b, b < 3)))
		s := "x"
		switch vfChoose(name+".s", 2) {
		case 1:
			s = "y"
		}
		l[i] = c19Row{A: NewComparableOrdered(a), B: NewComparableOrdered(b), S: NewComparableString(s), Idx: i}
	}
	return l
}

// c19Desc builds descriptor number `which` (0: key A, 1: key B, 2: key S) either by transformer or by field name.
func c19Desc(which int, byField bool, asc bool) SortDescriptor[c19Row] {
	if byField {
		return NewFieldSortDescriptor[c19Row]([]string{"A", "B", "S"}[which], asc)
	}
	switch which {
	case 0:
		return NewSimpleSortDescriptor(func(r c19Row) Comparable[interface{}] { return r.A }, asc)
	case 1:
		return NewSimpleSortDescriptor(func(r c19Row) Comparable[interface{}] { return r.B }, asc)
	}
	return NewSimpleSortDescriptor(func(r c19Row) Comparable[interface{}] { return r.S }, asc)
}

// c19KeyCmp: natural three-way comparison of key `which` (-1: a before b in natural order).
func c19KeyLess(which int, a, b c19Row) (lt, gt bool) {
	switch which {
	case 0:
		return a.A.Val < b.A.Val, a.A.Val > b.A.Val
	case 1:
		return a.B.Val < b.B.Val, a.B.Val > b.B.Val
	}
	return a.S.Val < b.S.Val, a.S.Val > b.S.Val
}

// c19RunDescriptors: sort rows by the descriptor stack (whichs/ascs/byField) through all three entry points.
func c19RunDescriptors(n int, whichs []int, ascs []bool, byField bool) {
	c19RunDescriptorsHow(n, whichs, ascs, byField, 0)
}

// bulk: 0 = the builder receives one descriptor per ThenWith call; 1 = the whole stack in ONE variadic ThenWith call;
// 2 = the first descriptor alone, the rest in one call (bulk > 0 checks the builder entry points only)
func c19RunDescriptorsHow(n int, whichs []int, ascs []bool, byField bool, bulk int) {
	in := c19Rows("r", n)
	orig := append([]c19Row{}, in...)
	var descs []SortDescriptor[c19Row]
	builder := NewSortDescriptorsBuilder[c19Row]()
	for d := range whichs {
		dsc := c19Desc(whichs[d], byField, ascs[d])
		descs = append(descs, dsc)
		if bulk == 0 {
			builder = builder.ThenWith(dsc)
		}
	}
	switch bulk {
	case 1:
		builder = builder.ThenWith(descs...)
	case 2:
		builder = builder.ThenWith(descs[0]).ThenWith(descs[1:]...)
	}
	if bulk > 0 {
		vfAssert("lemma/builder-holds-every-descriptor", len(builder.GetSortDescriptors()) == len(descs))
	}
	// reference: a strictly precedes b lexicographically by the key list
	less := func(a, b c19Row) bool {
		res := false
		tiedSoFar := true
		for d := range whichs {
			lt, gt := c19KeyLess(whichs[d], a, b)
			before := vfIteBool(ascs[d], lt, gt)
			res = vfOr(res, vfAnd(tiedSoFar, before))
			tiedSoFar = vfAnd(tiedSoFar, vfAnd(!lt, !gt))
		}
		return res
	}
	check := func(pfx string, out []c19Row) {
		vfAssert(pfx+"len", len(out) == len(orig))
		if len(out) != len(orig) {
			return
		}
		seen := make([]bool, len(orig))
		perm := true
		for _, r := range out {
			if r.Idx < 0 || r.Idx >= len(orig) || seen[r.Idx] {
				perm = false
				continue
			}
			seen[r.Idx] = true
			perm = vfAnd(perm, r == orig[r.Idx])
		}
		vfAssert(pfx+"permutation", perm)
		ordered, stable := true, true
		for i := range out {
			for j := i + 1; j < len(out); j++ {
				ordered = vfAnd(ordered, !less(out[j], out[i]))
				tie := vfAnd(!less(out[i], out[j]), !less(out[j], out[i]))
				stable = vfAnd(stable, vfImplies(tie, out[i].Idx < out[j].Idx))
			}
		}
		vfAssert(pfx+"ordered", ordered)
		vfAssert(pfx+"stable", stable)
	}
	var entry int
	if bulk == 0 {
		entry = vfChoose("entry", 3)
	} else {
		entry = 1 + vfChoose("builder-entry", 2)
	}
	switch entry {
	case 0:
		var out []c19Row
		if vfNoPanic("nopanic-sortedlist", func() { out = SortedListBySortDescriptors(descs, in...) }) {
			check("sortedlist-", out)
			vfAssert("sortedlist-input-unmodified", vfEq(in, orig))
		}
	case 1:
		var out2 []c19Row
		if vfNoPanic("nopanic-builder", func() { out2 = builder.ToSortedList(in...) }) {
			check("builder-", out2)
			vfAssert("builder-input-unmodified", vfEq(in, orig))
		}
	default:
		if vfNoPanic("nopanic-inplace", func() { builder.Sort(in) }) {
			check("inplace-", in)
		}
	}
	vfReach("end")
}

// one descriptor: Ordered key A or String key S, either direction, transformer- or field-name based
func vh_C19_Descriptors1() {
	n := vfRange("n", 0, 3+vfTier())
	w := []int{0, 2}[vfChoose("key", 2)]
	c19RunDescriptors(n, []int{w}, []bool{vfChoose("asc", 2) == 1}, vfChoose("byfield", 2) == 1)
}

// two descriptors: key A then key B (ties on A broken by B), all four direction mixes
func vh_C19_Descriptors2() {
	n := vfRange("n", 0, 3)
	c19RunDescriptors(n, []int{0, 1}, []bool{vfChoose("asc1", 2) == 1, vfChoose("asc2", 2) == 1}, vfChoose("byfield", 2) == 1)
}

// three descriptors mixing Ordered and String keys
func vh_C19_Descriptors3() {
	n := vfRange("n", 2, 2+vfTier()) // quick: two records already separate "second key ignored" from "third key ignored"
	c19RunDescriptors(n, []int{2, 0, 1}, []bool{vfChoose("asc1", 2) == 1, vfChoose("asc2", 2) == 1, vfChoose("asc3", 2) == 1}, false)
}

// the builder's ThenWith is variadic: a stack of 2..3 descriptors handed over in ONE call (or one + the rest) sorts
// exactly like the same stack added one call at a time
func vh_C19_BuilderBulk() {
	bulk := 1 + vfChoose("split", 2)
	if vfChoose("keys", 2) == 0 {
		n := vfRange("n", 2, 2+vfTier()) // two records already separate "a key of the stack was dropped" from the full order
		c19RunDescriptorsHow(n, []int{0, 1}, []bool{vfChoose("asc1", 2) == 1, vfChoose("asc2", 2) == 1}, vfChoose("byfield", 2) == 1, bulk)
	} else {
		c19RunDescriptorsHow(2+vfTier(), []int{2, 0, 1}, []bool{vfChoose("asc1", 2) == 1, true, vfChoose("asc3", 2) == 1}, false, bulk)
	}
}

func vh_C19_CompareTo() {
	a, b := vfInt("a"), vfInt("b")
	// the two Comparable implementations must use one sign convention for "receiver precedes argument"
	co := NewComparableOrdered(a).CompareTo(NewComparableOrdered(b))
	vfAssert("ordered-sign", vfAnd((co == 0) == (a == b), vfAnd((co > 0) == (a < b), (co < 0) == (a > b))))
	vfAssert("compareToOrdered", CompareToOrdered(a, b) == co)
	vfReach("end")
}

// the builder's convenience entry points ThenWithTransformerFunctor / ThenWithFieldName build the same stacks
func vh_C19_BuilderAliases() {
	n := vfRange("n", 2, 3)
	rows := c19Rows("r", n)
	asc1, asc2 := vfChoose("asc1", 2) == 1, vfChoose("asc2", 2) == 1
	b := NewSortDescriptorsBuilder[c19Row]()
	if vfChoose("first-by", 2) == 0 {
		b = b.ThenWithTransformerFunctor(func(r c19Row) Comparable[interface{}] { return r.A }, asc1)
	} else {
		b = b.ThenWithFieldName("A", asc1)
	}
	if vfChoose("second-by", 2) == 0 {
		b = b.ThenWithTransformerFunctor(func(r c19Row) Comparable[interface{}] { return r.B }, asc2)
	} else {
		b = b.ThenWithFieldName("B", asc2)
	}
	var out []c19Row
	if !vfNoPanic("nopanic-builder", func() { out = b.ToSortedList(rows...) }) {
		return
	}
	vfAssert("builder-len", len(out) == n)
	before := func(x, y c19Row) bool { // x strictly precedes y by (A, B) with the chosen directions
		ltA, gtA := x.A.Val < y.A.Val, x.A.Val > y.A.Val
		ltB, gtB := x.B.Val < y.B.Val, x.B.Val > y.B.Val
		firstA := vfIteBool(asc1, ltA, gtA)
		firstB := vfIteBool(asc2, ltB, gtB)
		return vfOr(firstA, vfAnd(vfAnd(!ltA, !gtA), firstB))
	}
	ordered, stable := true, true
	for i := 0; i < len(out); i++ {
		for j := i + 1; j < len(out); j++ {
			ordered = vfAnd(ordered, !before(out[j], out[i]))
			tie := vfAnd(!before(out[i], out[j]), !before(out[j], out[i]))
			stable = vfAnd(stable, vfImplies(tie, out[i].Idx < out[j].Idx))
		}
	}
	vfAssert("builder-ordered", ordered)
	vfAssert("builder-stable", stable)
	vfReach("end")
}

// two builders derived from the same prefix builder each sort by their own descriptor stack, in whatever order they
// are derived and used (a builder is a value: ThenWith* must not write into its receiver's storage)
func vh_C19_BuilderForks() {
	n := vfRange("n", 2, 3)
	rows := c19Rows("r", n)
	prefixLen := vfRange("prefix", 0, 2)
	p := NewSortDescriptorsBuilder[c19Row]()
	for i := 0; i < prefixLen; i++ {
		p = p.ThenWithFieldName("S", true) // ties on S are frequent: the later keys decide
	}
	a := p.ThenWithFieldName("A", true)
	b := p.ThenWithTransformerFunctor(func(r c19Row) Comparable[interface{}] { return r.B }, false)
	var outA, outB []c19Row
	if !vfNoPanic("nopanic-builder", func() { outA = a.ToSortedList(rows...); outB = b.ToSortedList(rows...) }) {
		return
	}
	check := func(pfx string, out []c19Row, byA bool) {
		vfAssert(pfx+"len", len(out) == n)
		ordered := true
		for i := 0; i+1 < len(out); i++ {
			x, y := out[i], out[i+1]
			sTie := true
			if prefixLen > 0 {
				ordered = vfAnd(ordered, x.S.Val <= y.S.Val)
				sTie = x.S.Val == y.S.Val
			}
			if byA {
				ordered = vfAnd(ordered, vfImplies(sTie, x.A.Val <= y.A.Val))
			} else {
				ordered = vfAnd(ordered, vfImplies(sTie, x.B.Val >= y.B.Val))
			}
		}
		vfAssert(pfx+"ordered", ordered)
	}
	check("builder-", outA, true)
	check("builder-", outB, false)
	vfReach("end")
}

// field-name descriptors on TWO record types that both have a field of that name, at different positions: each type
// is sorted by ITS field, in whatever order the two sorts happen
type c19RowSwapped struct {
	S ComparableString
	B ComparableOrdered[int]
	A ComparableOrdered[int]
}

func vh_C19_TwoRecordTypes() {
	a0, a1, b0, b1 := vfInt("a0"), vfInt("a1"), vfInt("b0"), vfInt("b1")
	rows := []c19Row{{A: NewComparableOrdered(a0), B: NewComparableOrdered(0), S: NewComparableString("x"), Idx: 0},
		{A: NewComparableOrdered(a1), B: NewComparableOrdered(0), S: NewComparableString("x"), Idx: 1}}
	swapped := []c19RowSwapped{{S: NewComparableString("y"), B: NewComparableOrdered(1), A: NewComparableOrdered(b0)},
		{S: NewComparableString("x"), B: NewComparableOrdered(0), A: NewComparableOrdered(b1)}}
	asc := vfChoose("asc", 2) == 1
	var out1 []c19Row
	var out2 []c19RowSwapped
	sort1 := func() {
		out1 = SortedListBySortDescriptors([]SortDescriptor[c19Row]{NewFieldSortDescriptor[c19Row]("A", asc)}, rows...)
	}
	sort2 := func() {
		out2 = SortedListBySortDescriptors([]SortDescriptor[c19RowSwapped]{NewFieldSortDescriptor[c19RowSwapped]("A", asc)}, swapped...)
	}
	if !vfNoPanic("nopanic-sortedlist", func() {
		if vfChoose("first", 2) == 0 {
			sort1()
			sort2()
		} else {
			sort2()
			sort1()
		}
	}) {
		return
	}
	vfAssert("sortedlist-len", len(out1) == 2 && len(out2) == 2)
	if len(out1) == 2 && len(out2) == 2 {
		vfAssert("sortedlist-ordered", vfIteBool(asc, out1[0].A.Val <= out1[1].A.Val, out1[0].A.Val >= out1[1].A.Val))
		vfAssert("sortedlist-ordered", vfIteBool(asc, out2[0].A.Val <= out2[1].A.Val, out2[0].A.Val >= out2[1].A.Val))
	}
	vfReach("end")
}
