package fpgo

import "sync"

// vf:instrument

// C16: PMap = Map in parallel: same results (a permutation with RandomOrder), f applied exactly once per element by
// at most min(FixedPool, len) goroutines at a time, and the call returns. Bounds: list length 0..3 (thorough 4),
// FixedPool in [-1, len+1] or no option, both order modes, every schedule with <= 1 preemption (thorough 2).

func vh_C16_PMap() {
	c16Run(vfRange("n", 0, 3+vfTier()))
}

// larger lists and every pool size around them, on the base schedule only (delay bound 0): size- and
// option-dependent behaviour (batching, remainders, clamps) that does not need a particular interleaving
func vh_C16_PMapSizes() {
	vfSetDelayBound(0)
	c16Run(vfRange("n", 4, 7+2*vfTier()))
}

func c16Run(n int) {
	list := make([]int, n)
	for i := range list {
		list[i] = vfInt("e")
		for j := 0; j < i; j++ {
			vfAssume(list[i] != list[j]) // distinct elements so that applications can be attributed
		}
	}
	var opt *PMapOption
	pool := 0
	random := false
	switch vfChoose("option", 3) {
	case 1:
		pool = vfRange("pool", -1, n+1)
		opt = &PMapOption{FixedPool: pool}
	case 2:
		pool = vfRange("pool", -1, n+1)
		random = true
		opt = &PMapOption{FixedPool: pool, RandomOrder: true}
	}
	var mu sync.Mutex
	applied := make([]int, n)
	other := 0
	running, maxRunning := 0, 0
	f := func(x int) int {
		mu.Lock()
		running++
		if running > maxRunning {
			maxRunning = running
		}
		hit := false
		for i := range list {
			if list[i] == x {
				applied[i]++
				hit = true
			}
		}
		if !hit {
			other++
		}
		mu.Unlock()
		r := vfFn("F", x) // scheduling points in here: other workers may overlap
		mu.Lock()
		running--
		mu.Unlock()
		return r
	}
	var out []int
	if !vfNoPanic("nopanic", func() { out = PMap(f, opt, list...) }) {
		return
	}
	vfAssert("returned-after-all-applications", running == 0)
	vfAssert("len", len(out) == n)
	want := make([]int, n)
	for i := range list {
		want[i] = vfFn("F", list[i])
		vfAssert("applied-exactly-once", applied[i] == 1)
	}
	vfAssert("applied-to-nothing-else", other == 0)
	if random {
		vfAssert("permutation-of-map", vfSameMultiset(out, want))
	} else {
		vfAssert("equals-map", vfSliceEq(out, want))
	}
	limit := n
	if opt != nil && pool > 0 && pool < n {
		limit = pool
	}
	vfAssert("concurrency-bound", maxRunning <= limit)
	vfReach("end")
}

func vh_C16_NilFunction() {
	l := vfIntList("l", 2, 0)
	var out []int
	vfNoPanic("nopanic", func() { out = PMap[int, int](nil, nil, l...) })
	vfAssert("empty", len(out) == 0)
	vfReach("end")
}

// AT SCALE: a concrete list whose length is taken from the code (vfProbe: just beyond every integer constant that PMap and
// its back ends compare a length, an index or a pool size with, or use as a channel capacity - a queue bound, a batch
// size), next to the small size 8; pool sizes 1 and 3 in ordered mode, 3 in RandomOrder; base schedule only.
func vh_C16_AtScale() {
	vfSetDelayBound(0)
	n := vfProbe("n", "PMap|pMap", 8, 8)
	list := make([]int, n)
	for i := range list {
		list[i] = i
	}
	cfg := vfChoose("config", 3)
	opt := &PMapOption{FixedPool: []int{1, 3, 3}[cfg], RandomOrder: cfg == 2}
	var mu sync.Mutex
	applied := make([]int, n)
	other := 0
	running, maxRunning := 0, 0
	f := func(x int) int {
		mu.Lock()
		running++
		if running > maxRunning {
			maxRunning = running
		}
		if x >= 0 && x < n {
			applied[x]++
		} else {
			other++
		}
		mu.Unlock()
		mu.Lock()
		running--
		mu.Unlock()
		return 2*x + 1
	}
	var out []int
	if !vfNoPanic("nopanic", func() { out = PMap(f, opt, list...) }) {
		return
	}
	vfAssert("returned-after-all-applications", running == 0)
	vfAssert("len", len(out) == n)
	once := true
	for i := range applied {
		once = once && applied[i] == 1
	}
	vfAssert("applied-exactly-once", once)
	vfAssert("applied-to-nothing-else", other == 0)
	seen := make([]int, n)
	inOrder, perm := len(out) == n, len(out) == n
	for i, v := range out {
		if v != 2*i+1 {
			inOrder = false
		}
		if v%2 != 1 || v/2 < 0 || v/2 >= n {
			perm = false
		} else {
			seen[v/2]++
		}
	}
	for _, c := range seen {
		perm = perm && c == 1
	}
	if opt.RandomOrder {
		vfAssert("permutation-of-map", perm)
	} else {
		vfAssert("equals-map", inOrder)
	}
	vfAssert("concurrency-bound", maxRunning <= opt.FixedPool)
	vfReach("end")
}
