package fpgo

func vh_C03_probe_Take() {
	n := vfRange("n", 0, 3)
	spare := vfRange("spare", 0, 1)
	back := make([]int, n+spare)
	for i := range back {
		back[i] = vfInt("e")
	}
	list := back[:n]
	count := vfIntIn("count", -3, n+3)
	var out []int
	if !vfNoPanic("nopanic", func() { out = Take(count, list...) }) {
		return
	}
	k := n
	if count > 0 && count < n {
		k = count
	}
	vfAssert("len", len(out) == k)
	for i := 0; i < len(out) && i < k; i++ {
		vfAssert("elem", out[i] == list[i])
	}
	vfReach("end")
}

func vh_C03_probe_DropLast() {
	n := vfRange("n", 0, 3)
	spare := vfRange("spare", 0, 1)
	back := make([]int, n+spare)
	for i := range back {
		back[i] = vfInt("e")
	}
	list := back[:n]
	count := vfIntIn("count", -3, n+3)
	var out []int
	if !vfNoPanic("nopanic", func() { out = DropLast(count, list...) }) {
		return
	}
	c := count
	if c < 0 {
		c = 0
	}
	if c > n {
		c = n
	}
	vfAssert("len", len(out) == n-c)
	vfReach("end")
}
