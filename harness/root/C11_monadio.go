package fpgo

// vf:instrument

// C11: MonadIO is lazy, runs every effect of the composed chain exactly once per evaluation in composition order,
// and obeys the monad laws; ObserveOn/SubscribeOn run effect and OnNext on the given handlers, once each.
// Programs: trees of Just/New/FlatMap (depth <= 2, thorough 3) drawn by symbolic choices; effects append their
// index to a trace and return an uninterpreted function of their input; 1..2 evaluations (thorough 3).

type c11Env struct {
	trace []int
	next  int
}

// c11Build draws a program of the given depth and returns it together with a reference evaluator that appends
// the expected effect indices to `want` and returns the expected value.
func c11Build(e *c11Env, depth int) (*MonadIODef[int], func(want *[]int) int) {
	kind := 0
	if depth > 0 {
		kind = vfChoose("shape", 3)
	} else {
		kind = vfChoose("leaf", 2)
	}
	switch kind {
	case 0: // Just(x)
		x := vfInt("just")
		return MonadIOJustGenerics(x), func(want *[]int) int { return x }
	case 1: // New(effect)
		id := e.next
		e.next++
		m := MonadIONewGenerics(func() int {
			e.trace = append(e.trace, id)
			return vfFn("E", id)
		})
		return m, func(want *[]int) int {
			*want = append(*want, id)
			return vfFn("E", id)
		}
	default: // inner.FlatMap(f) where f itself has a visible effect and returns a New or a Just
		inner, innerRef := c11Build(e, depth-1)
		id := e.next
		e.next += 2
		retNew := vfChoose("flatmap-returns", 2) == 1
		f := func(v int) *MonadIODef[int] {
			e.trace = append(e.trace, id)
			if retNew {
				return MonadIONewGenerics(func() int {
					e.trace = append(e.trace, id+1)
					return vfFn("G", id, v)
				})
			}
			return MonadIOJustGenerics(vfFn("G", id, v))
		}
		return inner.FlatMap(f), func(want *[]int) int {
			v := innerRef(want)
			*want = append(*want, id)
			if retNew {
				*want = append(*want, id+1)
			}
			return vfFn("G", id, v)
		}
	}
}

func vh_C11_LazyOncePerEval() {
	e := &c11Env{}
	m, ref := c11Build(e, 2+vfTier())
	vfAssert("lazy-no-effect-at-construction", len(e.trace) == 0)
	evals := vfRange("evals", 1, 2+vfTier())
	for k := 0; k < evals; k++ {
		e.trace = nil
		var want []int
		wv := ref(&want)
		var got int
		onNext := 0
		useSubscribe := vfChoose("via", 2) == 1
		if !vfNoPanic("nopanic", func() {
			if useSubscribe {
				m.Subscribe(Subscription[int]{OnNext: func(v int) { got = v; onNext++ }})
			} else {
				got = m.Eval()
			}
		}) {
			return
		}
		vfAssert("value", got == wv)
		vfAssert("effects-once-in-order", vfSliceEq(e.trace, want))
		if useSubscribe {
			vfAssert("onnext-exactly-once", onNext == 1)
		}
	}
	// a Subscription without OnNext runs nothing
	e.trace = nil
	vfNoPanic("nopanic-no-onnext", func() { m.Subscribe(Subscription[int]{}) })
	vfAssert("no-onnext-runs-nothing", len(e.trace) == 0)
	vfReach("end")
}

// composition does not disturb what was composed before: two MonadIOs derived by FlatMap from the SAME parent chain
// (k left-nested FlatMaps, k = 0..4, thorough 7) each evaluate to their own composition, in either evaluation order,
// and the parent still evaluates to its own
func vh_C11_SharedParent() {
	e := &c11Env{}
	x := vfInt("x")
	step := func(id int) func(int) *MonadIODef[int] {
		return func(v int) *MonadIODef[int] {
			e.trace = append(e.trace, id)
			return MonadIOJustGenerics(vfFn("K", id, v))
		}
	}
	k := vfRange("chain", 0, 4+3*vfTier())
	p := MonadIOJustGenerics(x)
	pv := x
	var pt []int
	for i := 0; i < k; i++ {
		p = p.FlatMap(step(i))
		pv = vfFn("K", i, pv)
		pt = append(pt, i)
	}
	a := p.FlatMap(step(100))
	b := p.FlatMap(step(200))
	vfAssert("lazy-no-effect-at-construction", len(e.trace) == 0)
	check := func(name string, m *MonadIODef[int], last int) {
		e.trace = nil
		var got int
		if !vfNoPanic("nopanic", func() { got = m.Eval() }) {
			return
		}
		want := append(append([]int{}, pt...), last)
		wv := vfFn("K", last, pv)
		if last < 0 {
			want, wv = pt, pv
		}
		vfAssert(name+"-value", got == wv)
		vfAssert(name+"-effects-once-in-order", vfSliceEq(e.trace, want))
	}
	switch vfChoose("order", 3) {
	case 0:
		check("first-derived", a, 100)
		check("second-derived", b, 200)
	case 1:
		check("second-derived", b, 200)
		check("first-derived", a, 100)
	default:
		check("parent", p, -1)
		check("first-derived", a, 100)
	}
	vfReach("end")
}

// the bound function may return ANY MonadIO - also the very one FlatMap was called on: m.FlatMap(_ -> m) is "m, then m
// again": m's effects run twice per evaluation, in order, and the second value is the result
func vh_C11_BindReturnsItsSource() {
	runs := 0
	x := vfInt("x")
	var m *MonadIODef[int]
	m = MonadIONewGenerics(func() int { runs++; return vfFn("E", x, runs) })
	var composed *MonadIODef[int]
	switch vfChoose("returns", 3) {
	case 0:
		composed = m.FlatMap(func(int) *MonadIODef[int] { return m })
	case 1: // one FlatMap further down the chain
		composed = m.FlatMap(func(v int) *MonadIODef[int] { return MonadIOJustGenerics(v) }).FlatMap(func(int) *MonadIODef[int] { return m })
	default: // the composed monad itself is what a later bind returns
		inner := m.FlatMap(func(v int) *MonadIODef[int] { return MonadIOJustGenerics(v) })
		composed = inner.FlatMap(func(int) *MonadIODef[int] { return inner })
	}
	vfAssert("lazy-no-effect-at-construction", runs == 0)
	var got int
	onNext := 0
	viaSubscribe := vfChoose("via", 2) == 1
	if !vfNoPanic("nopanic", func() {
		if viaSubscribe {
			composed.Subscribe(Subscription[int]{OnNext: func(v int) { got = v; onNext++ }})
		} else {
			got = composed.Eval()
		}
	}) {
		return
	}
	vfAssert("effects-once-in-order", runs == 2)
	vfAssert("value", got == vfFn("E", x, 2))
	if viaSubscribe {
		vfAssert("onnext-exactly-once", onNext == 1)
	}
	vfReach("end")
}

func vh_C11_Laws() {
	e := &c11Env{}
	x := vfInt("x")
	mk := func(id int) func(int) *MonadIODef[int] {
		return func(v int) *MonadIODef[int] {
			return MonadIONewGenerics(func() int {
				e.trace = append(e.trace, id)
				return vfFn("K", id, v)
			})
		}
	}
	f, g := mk(1), mk(2)
	run := func(m *MonadIODef[int]) (int, []int) {
		e.trace = nil
		v := m.Eval()
		return v, append([]int{}, e.trace...)
	}
	ok := vfNoPanic("nopanic", func() {
		// left identity
		v1, t1 := run(MonadIOJustGenerics(x).FlatMap(f))
		v2, t2 := run(f(x))
		vfAssert("left-identity", vfAnd(v1 == v2, vfSliceEq(t1, t2)))
		// right identity
		m, _ := c11Build(&c11Env{next: 10}, 1)
		v3, t3 := run(m.FlatMap(func(v int) *MonadIODef[int] { return MonadIOJustGenerics(v) }))
		v4, t4 := run(m)
		vfAssert("right-identity", vfAnd(v3 == v4, vfSliceEq(t3, t4)))
		// associativity
		base := MonadIONewGenerics(func() int { e.trace = append(e.trace, 0); return x })
		v5, t5 := run(base.FlatMap(f).FlatMap(g))
		v6, t6 := run(base.FlatMap(func(v int) *MonadIODef[int] { return f(v).FlatMap(g) }))
		vfAssert("associativity", vfAnd(v5 == v6, vfSliceEq(t5, t6)))
		vfAssert("associativity-order", vfSliceEq(t5, []int{0, 1, 2}))
		// interface{} variant
		mi := MonadIO.Just(x)
		vi := mi.Eval()
		vfAssert("just-interface", vi.(int) == x)
	})
	if ok {
		vfReach("end")
	}
}

func vh_C11_Handlers() {
	h1, h2 := Handler.New(), Handler.New()
	id1, id2 := -1, -1
	h1.Post(func() { id1 = vfGoroutineID() })
	h2.Post(func() { id2 = vfGoroutineID() })
	vfQuiesce()
	useOb := vfChoose("observeOn", 2) == 1
	useSub := vfChoose("subscribeOn", 2) == 1
	effects, onNext := 0, 0
	effectOn, nextOn := -1, -1
	x := vfInt("x")
	m := MonadIONewGenerics(func() int { effects++; effectOn = vfGoroutineID(); return vfFn("E", x) })
	if useOb && useSub && vfChoose("builder-order", 2) == 1 {
		m = m.SubscribeOn(h2).ObserveOn(h1)
	} else {
		if useOb {
			m = m.ObserveOn(h1)
		}
		if useSub {
			m = m.SubscribeOn(h2)
		}
	}
	me := vfGoroutineID()
	// a Subscription without OnNext runs nothing, whatever handlers are set
	vfNoPanic("nopanic-no-onnext", func() { m.Subscribe(Subscription[int]{}) })
	vfQuiesce()
	vfAssert("no-onnext-runs-nothing", effects == 0)
	effects = 0
	var got int
	vfNoPanic("nopanic", func() {
		m.Subscribe(Subscription[int]{OnNext: func(v int) { onNext++; nextOn = vfGoroutineID(); got = v }})
	})
	vfQuiesce()
	vfAssert("effect-exactly-once", effects == 1)
	vfAssert("onnext-exactly-once", onNext == 1)
	vfAssert("value", got == vfFn("E", x))
	if useOb {
		vfAssert("effect-on-observe-handler", effectOn == id1)
	} else {
		vfAssert("lemma/effect-on-caller", effectOn == me)
	}
	switch {
	case useSub:
		vfAssert("onnext-on-subscribe-handler", nextOn == id2)
	case useOb:
		vfAssert("lemma/onnext-on-observe-handler", nextOn == id1)
	default:
		vfAssert("lemma/onnext-on-caller", nextOn == me)
	}
	vfReach("end")
}

// handlers that are BUSY when the next piece of work arrives: the same MonadIO is subscribed a second time while the
// first OnNext is still running on the subscribe handler (or while the first effect is still running on the observe
// handler) - the second effect still runs on the observe handler's goroutine and the second OnNext on the subscribe
// handler's, once each
func vh_C11_BusyHandlers() {
	vfSetDelayBound(1 + vfTier()) // five goroutines: the thorough tier's bound of 5 deviations is for the two-party harnesses
	h1, h2 := Handler.New(), Handler.New()
	id1, id2 := -1, -1
	h1.Post(func() { id1 = vfGoroutineID() })
	h2.Post(func() { id2 = vfGoroutineID() })
	vfQuiesce()
	gate := make(chan struct{})
	parkInEffect := vfChoose("first-parks-in", 2) == 1
	var effectOn, nextOn []int
	firstEffect, firstNext := true, true
	m := MonadIONewGenerics(func() int {
		effectOn = append(effectOn, vfGoroutineID())
		if firstEffect {
			firstEffect = false
			if parkInEffect {
				<-gate
			}
		}
		return 1
	}).ObserveOn(h1).SubscribeOn(h2)
	sub := Subscription[int]{OnNext: func(v int) {
		nextOn = append(nextOn, vfGoroutineID())
		if firstNext {
			firstNext = false
			if !parkInEffect {
				<-gate
			}
		}
	}}
	done := make(chan struct{})
	go func() {
		m.Subscribe(sub)
		m.Subscribe(sub) // arrives while a handler is still busy with the first evaluation
		close(done)
	}()
	vfQuiesce()
	close(gate)
	<-done
	vfQuiesce()
	vfAssert("effect-exactly-once", len(effectOn) == 2)
	vfAssert("onnext-exactly-once", len(nextOn) == 2)
	for _, g := range effectOn {
		vfAssert("effect-on-observe-handler", g == id1)
	}
	for _, g := range nextOn {
		vfAssert("onnext-on-subscribe-handler", g == id2)
	}
	vfReach("end")
}

// the util-instance constructor MonadIO.New(effect) is as lazy and as exactly-once as MonadIONewGenerics
func vh_C11_UtilInstance() {
	effects := 0
	x := vfInt("x")
	m := MonadIO.New(func() interface{} { effects++; return vfFn("E", x) })
	m2 := m.FlatMap(func(v interface{}) *MonadIODef[interface{}] {
		return MonadIOJustGenerics[interface{}](vfFn("K", v.(int)))
	})
	vfAssert("lazy-no-effect-at-construction", effects == 0)
	var got interface{}
	vfNoPanic("nopanic", func() { got = m2.Eval() })
	vfAssert("effect-exactly-once", effects == 1)
	vfAssert("value", got == interface{}(vfFn("K", vfFn("E", x))))
	vfReach("end")
}

// left identity when the monad RETURNED by the bound function carries handlers of its own: Just(x).FlatMap(f) still
// evaluates to what f(x) evaluates to, with f's inner effect run exactly once before the value is delivered
func vh_C11_InnerHandlers() {
	h := Handler.New()
	x := vfInt("x")
	inner := 0
	which := vfChoose("inner-handlers", 3)
	f := func(v int) *MonadIODef[int] {
		m := MonadIONewGenerics(func() int { inner++; return vfFn("K", v) })
		switch which {
		case 0:
			return m.ObserveOn(h)
		case 1:
			return m.SubscribeOn(h)
		}
		return m.ObserveOn(h).SubscribeOn(h)
	}
	var got int
	onNext := 0
	viaSubscribe := vfChoose("via", 2) == 1
	if !vfNoPanic("nopanic", func() {
		m := MonadIOJustGenerics(x).FlatMap(f)
		if viaSubscribe {
			m.Subscribe(Subscription[int]{OnNext: func(v int) { got = v; onNext++ }})
		} else {
			got = m.Eval()
		}
	}) {
		return
	}
	vfQuiesce()
	vfAssert("left-identity", got == vfFn("K", x))
	vfAssert("effect-exactly-once", inner == 1)
	if viaSubscribe {
		vfAssert("onnext-exactly-once", onNext == 1)
	}
	vfReach("end")
}

// LEMMA (the property does not say what happens when a MonadIO is reconfigured while an evaluation is in flight):
// the handlers used by an evaluation are the ones in place when Subscribe was called
func vh_C11_ReconfiguredInFlight() {
	h1, h2, h3 := Handler.New(), Handler.New(), Handler.New()
	id2 := -1
	h2.Post(func() { id2 = vfGoroutineID() })
	vfQuiesce()
	gate := make(chan struct{})
	nextOn := -1
	m := MonadIONewGenerics(func() int { <-gate; return 1 }).ObserveOn(h1).SubscribeOn(h2)
	m.Subscribe(Subscription[int]{OnNext: func(v int) { nextOn = vfGoroutineID() }})
	m.SubscribeOn(h3) // reconfigured for a later evaluation while the first effect is still running on h1
	close(gate)
	vfQuiesce()
	vfAssert("lemma/onnext-on-the-subscribe-handler-of-its-own-evaluation", nextOn == id2)
	vfReach("end")
}
